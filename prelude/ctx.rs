// ======================================================================================
// prelude/ctx.rs — ghost view of `patronus::expr::Context` (DESIGN §3: CtxView, wf, extends).
//
// `ExprRef`, `StringRef`, `BVLitValue` are modelled as transparent newtypes over their integer payload
// (real: NonZeroU32 / NonZeroU32 / baa::BitVecValueIndex{width,index}); only ==, Copy and the spec
// accessors below are used.  `enum Expr`, `enum Type`, `struct ArrayType` are cut verbatim from
// nodes.rs on every run and spliced in by the driver (marker EXTRACTED-ITEMS).
// ======================================================================================
#[derive(PartialEq, Eq, Clone, Copy, Structural)]
pub struct ExprRef(pub u32);

#[derive(PartialEq, Eq, Clone, Copy, Structural)]
pub struct StringRef(pub u32);

/// baa::BitVecValueIndex: (position in the interner's word store, width)
#[derive(PartialEq, Eq, Clone, Copy, Structural)]
pub struct BitVecValueIndex { pub width: WidthInt, pub index: u32 }

#[derive(PartialEq, Eq, Clone, Copy, Structural)]
pub struct BVLitValue(pub BitVecValueIndex);

//@@EXTRACTED-ITEMS@@

impl Clone for Expr {
    /// `#[derive(Clone)]` on an enum whose fields are all `Copy`
    #[verifier::external_body]
    fn clone(&self) -> (r: Self)
        ensures r == *self,
    { unimplemented!() }
}

/// operands of a node, in the order `for_each_child` (foreach.rs) visits them
pub open spec fn kids(n: Expr) -> Seq<ExprRef> {
    match n {
        Expr::BVSymbol { name, width } => seq![],
        Expr::BVLiteral(l) => seq![],
        Expr::BVZeroExt { e, by, width } => seq![e],
        Expr::BVSignExt { e, by, width } => seq![e],
        Expr::BVSlice { e, hi, lo } => seq![e],
        Expr::BVNot(e, w) => seq![e],
        Expr::BVNegate(e, w) => seq![e],
        Expr::BVEqual(a, b) => seq![a, b],
        Expr::BVImplies(a, b) => seq![a, b],
        Expr::BVGreater(a, b) => seq![a, b],
        Expr::BVGreaterSigned(a, b, w) => seq![a, b],
        Expr::BVGreaterEqual(a, b) => seq![a, b],
        Expr::BVGreaterEqualSigned(a, b, w) => seq![a, b],
        Expr::BVConcat(a, b, w) => seq![a, b],
        Expr::BVAnd(a, b, w) => seq![a, b],
        Expr::BVOr(a, b, w) => seq![a, b],
        Expr::BVXor(a, b, w) => seq![a, b],
        Expr::BVShiftLeft(a, b, w) => seq![a, b],
        Expr::BVArithmeticShiftRight(a, b, w) => seq![a, b],
        Expr::BVShiftRight(a, b, w) => seq![a, b],
        Expr::BVAdd(a, b, w) => seq![a, b],
        Expr::BVMul(a, b, w) => seq![a, b],
        Expr::BVSignedDiv(a, b, w) => seq![a, b],
        Expr::BVUnsignedDiv(a, b, w) => seq![a, b],
        Expr::BVSignedMod(a, b, w) => seq![a, b],
        Expr::BVSignedRem(a, b, w) => seq![a, b],
        Expr::BVUnsignedRem(a, b, w) => seq![a, b],
        Expr::BVSub(a, b, w) => seq![a, b],
        Expr::BVArrayRead { array, index, width } => seq![array, index],
        Expr::BVIte { cond, tru, fals } => seq![cond, tru, fals],
        Expr::ArraySymbol { name, index_width, data_width } => seq![],
        Expr::ArrayConstant { e, index_width, data_width } => seq![e],
        Expr::ArrayEqual(a, b) => seq![a, b],
        Expr::ArrayStore { array, index, data } => seq![array, index, data],
        Expr::ArrayIte { cond, tru, fals } => seq![cond, tru, fals],
    }
}

//@@PRIM-BEGIN@@
#[verifier::external_body]
pub struct Context { _p: u8 }

pub open spec fn bv_of(t: Type) -> Option<WidthInt> {
    match t { Type::BV(w) => Some(w), Type::Array(_) => None }
}

impl Context {
    // ---------------------------------------------------------------- ghost view
    pub uninterp spec fn nodes(&self) -> Map<ExprRef, Expr>;
    /// value of an interned literal
    pub uninterp spec fn lit_v(&self, l: BVLitValue) -> int;
    pub uninterp spec fn lit_interned(&self, l: BVLitValue) -> bool;
    /// inverse views that make "canonical" a one-variable statement
    pub uninterp spec fn ref_of(&self, n: Expr) -> ExprRef;
    pub uninterp spec fn lit_of(&self, w: WidthInt, v: int) -> BVLitValue;
    /// denotation and type of a reference
    pub uninterp spec fn den(&self, e: ExprRef) -> Den;
    pub uninterp spec fn ty(&self, e: ExprRef) -> Type;
    pub uninterp spec fn true_ref(&self) -> ExprRef;
    pub uninterp spec fn false_ref(&self) -> ExprRef;
    /// representation invariant of the parts that the API-level view does not show (interner / index-set internals)
    pub uninterp spec fn rep(&self) -> bool;

//@@PRIM-END@@
    pub open spec fn has(&self, e: ExprRef) -> bool { self.nodes().contains_key(e) }

    /// present, of bit-vector (array) type, and its denotation has that sort
    pub open spec fn is_bv(&self, e: ExprRef) -> bool { self.has(e) && self.ty(e) is BV && self.den_sorted(e) }
    pub open spec fn is_arr(&self, e: ExprRef) -> bool { self.has(e) && self.ty(e) is Array && self.den_sorted(e) }
    pub open spec fn w(&self, e: ExprRef) -> WidthInt { match self.ty(e) { Type::BV(w) => w, Type::Array(_) => 0 } }
    pub open spec fn bv(&self, e: ExprRef, w: WidthInt) -> bool { self.has(e) && self.ty(e) == Type::BV(w) && self.den_sorted(e) }
    pub open spec fn aty(&self, e: ExprRef) -> ArrayType {
        match self.ty(e) { Type::Array(t) => t, Type::BV(_) => ArrayType { index_width: 0, data_width: 0 } }
    }
    pub open spec fn is_node(&self, n: Expr) -> bool { exists|r: ExprRef| #[trigger] self.has(r) && self.nodes()[r] == n }

    /// the sort of the denotation agrees with the type
    pub open spec fn den_sorted(&self, r: ExprRef) -> bool {
        match self.ty(r) {
            Type::BV(w) => w >= 1 && d_is_bv(self.den(r)) && d_w(self.den(r)) == w,
            Type::Array(t) => t.index_width >= 1 && t.data_width >= 1 && !d_is_bv(self.den(r))
                && d_iw(self.den(r)) == t.index_width && d_dw(self.den(r)) == t.data_width,
        }
    }

    /// node-level typing rule of a node *value* (types.rs `type_check`, stated over `ty`); children must be present
    pub open spec fn node_typed(&self, n: Expr) -> bool {
        match n {
            Expr::BVSymbol { name, width } => width >= 1,
            Expr::BVLiteral(l) => l.0.width >= 1 && self.lit_interned(l) && v_fits(l.0.width as int, self.lit_v(l)),
            Expr::BVZeroExt { e, by, width } => self.is_bv(e) && width == self.w(e) + by,
            Expr::BVSignExt { e, by, width } => self.is_bv(e) && width == self.w(e) + by,
            Expr::BVSlice { e, hi, lo } => self.is_bv(e) && lo <= hi && hi < self.w(e),
            Expr::BVNot(e, w) => self.bv(e, w),
            Expr::BVNegate(e, w) => self.bv(e, w),
            Expr::BVEqual(a, b) => self.is_bv(a) && self.is_bv(b) && self.w(a) == self.w(b),
            Expr::BVImplies(a, b) => self.bv(a, 1) && self.bv(b, 1),
            Expr::BVGreater(a, b) => self.is_bv(a) && self.is_bv(b) && self.w(a) == self.w(b),
            Expr::BVGreaterSigned(a, b, w) => self.bv(a, w) && self.bv(b, w),
            Expr::BVGreaterEqual(a, b) => self.is_bv(a) && self.is_bv(b) && self.w(a) == self.w(b),
            Expr::BVGreaterEqualSigned(a, b, w) => self.bv(a, w) && self.bv(b, w),
            Expr::BVConcat(a, b, w) => self.is_bv(a) && self.is_bv(b) && w == self.w(a) + self.w(b),
            Expr::BVAnd(a, b, w) => self.bv(a, w) && self.bv(b, w),
            Expr::BVOr(a, b, w) => self.bv(a, w) && self.bv(b, w),
            Expr::BVXor(a, b, w) => self.bv(a, w) && self.bv(b, w),
            Expr::BVShiftLeft(a, b, w) => self.bv(a, w) && self.bv(b, w),
            Expr::BVArithmeticShiftRight(a, b, w) => self.bv(a, w) && self.bv(b, w),
            Expr::BVShiftRight(a, b, w) => self.bv(a, w) && self.bv(b, w),
            Expr::BVAdd(a, b, w) => self.bv(a, w) && self.bv(b, w),
            Expr::BVMul(a, b, w) => self.bv(a, w) && self.bv(b, w),
            Expr::BVSignedDiv(a, b, w) => self.bv(a, w) && self.bv(b, w),
            Expr::BVUnsignedDiv(a, b, w) => self.bv(a, w) && self.bv(b, w),
            Expr::BVSignedMod(a, b, w) => self.bv(a, w) && self.bv(b, w),
            Expr::BVSignedRem(a, b, w) => self.bv(a, w) && self.bv(b, w),
            Expr::BVUnsignedRem(a, b, w) => self.bv(a, w) && self.bv(b, w),
            Expr::BVSub(a, b, w) => self.bv(a, w) && self.bv(b, w),
            Expr::BVArrayRead { array, index, width } => self.is_arr(array) && self.bv(index, self.aty(array).index_width) && width == self.aty(array).data_width,
            Expr::BVIte { cond, tru, fals } => self.bv(cond, 1) && self.is_bv(tru) && self.is_bv(fals) && self.ty(tru) == self.ty(fals),
            Expr::ArraySymbol { name, index_width, data_width } => index_width >= 1 && data_width >= 1,
            Expr::ArrayConstant { e, index_width, data_width } => self.bv(e, data_width) && index_width >= 1,
            Expr::ArrayEqual(a, b) => self.is_arr(a) && self.is_arr(b) && self.ty(a) == self.ty(b),
            Expr::ArrayStore { array, index, data } => self.is_arr(array) && self.bv(index, self.aty(array).index_width) && self.bv(data, self.aty(array).data_width),
            Expr::ArrayIte { cond, tru, fals } => self.bv(cond, 1) && self.is_arr(tru) && self.is_arr(fals) && self.ty(tru) == self.ty(fals),
        }
    }

    /// type of a well-typed node value (types.rs `get_type`; the ite/store recursion is `ty` of the child)
    pub open spec fn node_ty(&self, n: Expr) -> Type {
        match n {
            Expr::BVSymbol { name, width } => Type::BV(width),
            Expr::BVLiteral(l) => Type::BV(l.0.width),
            Expr::BVZeroExt { e, by, width } => Type::BV(width),
            Expr::BVSignExt { e, by, width } => Type::BV(width),
            Expr::BVSlice { e, hi, lo } => Type::BV((hi - lo + 1) as u32),
            Expr::BVNot(e, w) => Type::BV(w),
            Expr::BVNegate(e, w) => Type::BV(w),
            Expr::BVEqual(a, b) => Type::BV(1),
            Expr::BVImplies(a, b) => Type::BV(1),
            Expr::BVGreater(a, b) => Type::BV(1),
            Expr::BVGreaterSigned(a, b, w) => Type::BV(1),
            Expr::BVGreaterEqual(a, b) => Type::BV(1),
            Expr::BVGreaterEqualSigned(a, b, w) => Type::BV(1),
            Expr::BVConcat(a, b, w) => Type::BV(w),
            Expr::BVAnd(a, b, w) => Type::BV(w),
            Expr::BVOr(a, b, w) => Type::BV(w),
            Expr::BVXor(a, b, w) => Type::BV(w),
            Expr::BVShiftLeft(a, b, w) => Type::BV(w),
            Expr::BVArithmeticShiftRight(a, b, w) => Type::BV(w),
            Expr::BVShiftRight(a, b, w) => Type::BV(w),
            Expr::BVAdd(a, b, w) => Type::BV(w),
            Expr::BVMul(a, b, w) => Type::BV(w),
            Expr::BVSignedDiv(a, b, w) => Type::BV(w),
            Expr::BVUnsignedDiv(a, b, w) => Type::BV(w),
            Expr::BVSignedMod(a, b, w) => Type::BV(w),
            Expr::BVSignedRem(a, b, w) => Type::BV(w),
            Expr::BVUnsignedRem(a, b, w) => Type::BV(w),
            Expr::BVSub(a, b, w) => Type::BV(w),
            Expr::BVArrayRead { array, index, width } => Type::BV(width),
            Expr::BVIte { cond, tru, fals } => self.ty(fals),
            Expr::ArraySymbol { name, index_width, data_width } => Type::Array(ArrayType { index_width, data_width }),
            Expr::ArrayConstant { e, index_width, data_width } => Type::Array(ArrayType { index_width, data_width }),
            Expr::ArrayEqual(a, b) => Type::BV(1),
            Expr::ArrayStore { array, index, data } => self.ty(array),
            Expr::ArrayIte { cond, tru, fals } => self.ty(fals),
        }
    }

    /// one-step unfolding of the denotation: the SMT-LIB operator of the node applied to the denotations of its children
    pub open spec fn node_den(&self, n: Expr) -> Den {
        match n {
            Expr::BVSymbol { name, width } => d_sym(name.0 as int, true, width as int, 0),
            Expr::BVLiteral(l) => d_lit(l.0.width as int, self.lit_v(l)),
            Expr::BVZeroExt { e, by, width } => d_zext(self.den(e), by as int),
            Expr::BVSignExt { e, by, width } => d_sext(self.den(e), by as int),
            Expr::BVSlice { e, hi, lo } => d_slice(self.den(e), hi as int, lo as int),
            Expr::BVNot(e, w) => d_not(self.den(e)),
            Expr::BVNegate(e, w) => d_neg(self.den(e)),
            Expr::BVEqual(a, b) => d_eq(self.den(a), self.den(b)),
            Expr::BVImplies(a, b) => d_implies(self.den(a), self.den(b)),
            Expr::BVGreater(a, b) => d_ugt(self.den(a), self.den(b)),
            Expr::BVGreaterSigned(a, b, w) => d_sgt(self.den(a), self.den(b)),
            Expr::BVGreaterEqual(a, b) => d_uge(self.den(a), self.den(b)),
            Expr::BVGreaterEqualSigned(a, b, w) => d_sge(self.den(a), self.den(b)),
            Expr::BVConcat(a, b, w) => d_concat(self.den(a), self.den(b)),
            Expr::BVAnd(a, b, w) => d_and(self.den(a), self.den(b)),
            Expr::BVOr(a, b, w) => d_or(self.den(a), self.den(b)),
            Expr::BVXor(a, b, w) => d_xor(self.den(a), self.den(b)),
            Expr::BVShiftLeft(a, b, w) => d_shl(self.den(a), self.den(b)),
            Expr::BVArithmeticShiftRight(a, b, w) => d_ashr(self.den(a), self.den(b)),
            Expr::BVShiftRight(a, b, w) => d_lshr(self.den(a), self.den(b)),
            Expr::BVAdd(a, b, w) => d_add(self.den(a), self.den(b)),
            Expr::BVMul(a, b, w) => d_mul(self.den(a), self.den(b)),
            Expr::BVSignedDiv(a, b, w) => d_sdiv(self.den(a), self.den(b)),
            Expr::BVUnsignedDiv(a, b, w) => d_udiv(self.den(a), self.den(b)),
            Expr::BVSignedMod(a, b, w) => d_smod(self.den(a), self.den(b)),
            Expr::BVSignedRem(a, b, w) => d_srem(self.den(a), self.den(b)),
            Expr::BVUnsignedRem(a, b, w) => d_urem(self.den(a), self.den(b)),
            Expr::BVSub(a, b, w) => d_sub(self.den(a), self.den(b)),
            Expr::BVArrayRead { array, index, width } => d_select(self.den(array), self.den(index)),
            Expr::BVIte { cond, tru, fals } => d_ite(self.den(cond), self.den(tru), self.den(fals)),
            Expr::ArraySymbol { name, index_width, data_width } => d_sym(name.0 as int, false, data_width as int, index_width as int),
            Expr::ArrayConstant { e, index_width, data_width } => d_const_array(index_width as int, self.den(e)),
            Expr::ArrayEqual(a, b) => d_array_eq(self.den(a), self.den(b)),
            Expr::ArrayStore { array, index, data } => d_store(self.den(array), self.den(index), self.den(data)),
            Expr::ArrayIte { cond, tru, fals } => d_ite(self.den(cond), self.den(tru), self.den(fals)),
        }
    }

    /// a node's type, denotation and sort are those of its node value; its children are older (DAG order)
    pub open spec fn node_ok(&self, r: ExprRef) -> bool {
        &&& self.den_sorted(r)
        &&& self.node_typed(self.nodes()[r])
        &&& self.ty(r) == self.node_ty(self.nodes()[r])
        &&& self.den(r) == self.node_den(self.nodes()[r])
        &&& forall|i: int| 0 <= i < kids(self.nodes()[r]).len() ==> (#[trigger] kids(self.nodes()[r])[i]).0 < r.0 && self.has(kids(self.nodes()[r])[i])
    }

    /// every node is well-typed and denotes what its operator says.  Opaque: the quantifier is only opened by
    /// `lemma_node_ok` (a has(r) -> node_ok(r) -> has(child) chain would otherwise be a matching loop).
    #[verifier::opaque]
    pub open spec fn all_nodes_ok(&self) -> bool {
        forall|r: ExprRef| #[trigger] self.has(r) ==> self.node_ok(r)
    }

    pub proof fn lemma_node_ok(&self, r: ExprRef)
        requires self.wf_core(), self.has(r),
        ensures self.node_ok(r),
    {
        reveal(Context::all_nodes_ok);
    }

    /// representation invariant of the context as seen through its API, without the two cached constants
    /// (this is what holds while `Context::default` is still building them)
    pub open spec fn wf_core(&self) -> bool {
        &&& self.all_nodes_ok()
        &&& self.rep()
        &&& self.nodes().dom().finite()
        // hash-consing: one reference per node (ref_of is the inverse of nodes)
        &&& forall|r: ExprRef| #[trigger] self.has(r) ==> self.ref_of(self.nodes()[r]) == r
        // value interning: one literal handle per (width, value)
        &&& forall|l: BVLitValue| #[trigger] self.lit_interned(l) ==> self.lit_of(l.0.width, self.lit_v(l)) == l
        // the interner maps the numbers 0..7 to the indices 0..7 (nodes.rs is_true / is_false rely on it)
        &&& forall|l: BVLitValue| #[trigger] self.lit_interned(l) ==> ((l.0.index == 0) <==> (self.lit_v(l) == 0)) && ((l.0.index == 1) <==> (self.lit_v(l) == 1))
    }

    /// the cached constants are the literals true and false
    pub open spec fn consts_ok(&self) -> bool {
        &&& self.has(self.true_ref()) && self.has(self.false_ref())
        &&& self.ty(self.true_ref()) == Type::BV(1) && self.den(self.true_ref()) == d_lit(1, 1)
        &&& self.ty(self.false_ref()) == Type::BV(1) && self.den(self.false_ref()) == d_lit(1, 0)
    }

    /// representation invariant of the context as seen through its API
    pub open spec fn wf(&self) -> bool {
        self.wf_core() && self.consts_ok()
    }

    /// nothing that existed is changed: nodes, types, denotations, interned literals
    pub open spec fn frame(&self, old: &Context) -> bool {
        &&& forall|r: ExprRef| #[trigger] old.has(r) ==> self.has(r) && self.nodes()[r] == old.nodes()[r]
                && self.den(r) == old.den(r) && self.ty(r) == old.ty(r)
        &&& forall|l: BVLitValue| #[trigger] old.lit_interned(l) ==> self.lit_interned(l) && self.lit_v(l) == old.lit_v(l)
    }

    /// FRAME of every mutating operation of the API: nothing that existed is changed, the cached constants are the same references
    pub open spec fn extends(&self, old: &Context) -> bool {
        &&& self.frame(old)
        &&& self.true_ref() == old.true_ref() && self.false_ref() == old.false_ref()
    }

//@@NODERAW-BEGIN@@
    // ---------------------------------------------------------------- Index<ExprRef> (R1: ctx[e] == *ctx.node(e))
    #[verifier::external_body]
    pub fn node_raw(&self, e: ExprRef) -> (r: &Expr)
        requires self.has(e),
        ensures *r == self.nodes()[e],
    { unimplemented!() }

//@@NODERAW-END@@
    /// looking at a node of a well-formed context tells what the node is *and* that it is well-typed (proved from wf)
    pub fn node(&self, e: ExprRef) -> (r: &Expr)
        requires self.has(e),
        ensures *r == self.nodes()[e], self.wf_core() ==> self.node_ok(e),
    {
        proof { if self.wf_core() { self.lemma_node_ok(e); } }
        self.node_raw(e)
    }
}

/// `n` may stand for `o`: present, same type, same denotation
pub open spec fn same(ctx: &Context, n: ExprRef, o: ExprRef) -> bool {
    ctx.has(n) && ctx.ty(n) == ctx.ty(o) && ctx.den(n) == ctx.den(o)
}

/// `children` are element-wise interchangeable with the operands of node `e`
pub open spec fn same_kids(ctx: &Context, children: Seq<ExprRef>, e: ExprRef) -> bool {
    &&& children.len() == kids(ctx.nodes()[e]).len()
    &&& forall|i: int| 0 <= i < children.len() ==> same(ctx, #[trigger] children[i], kids(ctx.nodes()[e])[i])
}

/// postcondition shared by the node-creating builders: frame, invariant, and the node that `r` now denotes
pub open spec fn built(old: &Context, new: &Context, r: ExprRef, node: Expr, t: Type, d: Den) -> bool {
    new.extends(old) && new.wf_core() && (old.consts_ok() ==> new.consts_ok()) && new.has(r) && new.nodes()[r] == node && new.ty(r) == t && new.den(r) == d && new.den_sorted(r)
}

/// postcondition of the operator builders: frame, invariant, and what the result denotes (not which node represents it)
pub open spec fn made(old: &Context, new: &Context, r: ExprRef, t: Type, d: Den) -> bool {
    new.extends(old) && new.wf() && new.has(r) && new.ty(r) == t && new.den(r) == d && new.den_sorted(r)
}

/// postcondition shared by every rewrite rule: the context only grew, stays well-formed, and the result (if any)
/// has denotation `d` and type `t`
pub open spec fn rule_post(old: &Context, new: &Context, res: Option<ExprRef>, d: Den, t: Type) -> bool {
    &&& new.extends(old)
    &&& new.wf()
    &&& match res { Some(r) => new.has(r) && new.den(r) == d && new.ty(r) == t && new.den_sorted(r), None => true }
}

//@@LITGET-BEGIN@@
impl BVLitValue {
    #[verifier::external_body]
    pub fn get<'c>(&self, ctx: &'c Context) -> (r: BitVecValueRef<'c>)
        requires ctx.lit_interned(*self),
        ensures r.w() == self.0.width, r.v() == ctx.lit_v(*self),
    { unimplemented!() }

    #[verifier::external_body]
    pub fn width(&self) -> (r: WidthInt)
        ensures r == self.0.width,
    { unimplemented!() }
}

//@@LITGET-END@@
/// R11: an `impl FnMut(&ExprRef)` visitor seen as a call log
pub struct Visitor { pub log: Ghost<Seq<ExprRef>> }
impl Visitor {
    #[verifier::external_body]
    pub fn visit(&mut self, e: &ExprRef)
        ensures final(self).log@ == old(self).log@.push(*e),
    { unimplemented!() }
}
