// ======================================================================================
// prelude/solver.rs — environment of patronus/src/smt/solver.rs (response reader).
// The solver process is ghost state: its stdout is a FINITE byte stream with `remaining()` bytes left
// (a live but silent solver makes read_line block; that is environment liveness and is excluded).
// `struct SmtLibSolverCtx`, `enum Error`, `enum CheckSatResponse` are cut verbatim from solver.rs; the types of the
// process handles are replaced by the opaque types below (logged substitutions).
// ======================================================================================
pub uninterp spec fn spec_trim(s: Seq<char>) -> Seq<char>;
pub uninterp spec fn spec_parens(s: Seq<char>) -> int;

pub assume_specification<'a> [ str::trim ] (s: &'a str) -> (r: &'a str)
    ensures r@ == spec_trim(s@);

#[verifier::external_body] pub struct XChild { _p: u8 }
#[verifier::external_body] pub struct XStdin { _p: u8 }
#[verifier::external_body] pub struct XStdout { _p: u8 }
#[verifier::external_body] pub struct XStderr { _p: u8 }
#[verifier::external_body] pub struct XFile { _p: u8 }
#[verifier::external_body] pub struct XSymbolTable { _p: u8 }
#[verifier::external_body] pub struct XIoError { _p: u8 }
#[verifier::external_body] pub struct XParserError { _p: u8 }

//@@EXTRACTED-ITEMS@@

impl XStdout {
    /// bytes the solver will still write before its stdout reaches end of stream
    pub uninterp spec fn remaining(&self) -> nat;

    /// BufRead::read_line: appends one line; Ok(0) exactly at end of stream (`?` converts io::Error into Error::Io)
    #[verifier::external_body]
    pub fn read_line(&mut self, buf: &mut String) -> (r: Result<usize>)
        ensures match r {
            Ok(n) => n <= old(self).remaining() && final(self).remaining() == old(self).remaining() - n
                     && ((n == 0) <==> (old(self).remaining() == 0)),
            Err(_) => true,
        },
    { unimplemented!() }
}

impl XStdin {
    #[verifier::external_body]
    pub fn flush(&mut self) -> (r: Result<()>)
    { unimplemented!() }
}

/// smt/parser.rs count_parens: number of '(' minus number of ')'
#[verifier::external_body]
pub fn count_parens(s: &String) -> (r: i64)
    ensures r == spec_parens(s@),
{ unimplemented!() }
