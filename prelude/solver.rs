// ======================================================================================
// prelude/solver.rs — environment of patronus/src/smt/solver.rs (response reader).
// The solver process is ghost state: its stdout is a FINITE byte stream with `remaining()` bytes left
// (a live but silent solver makes read_line block; that is environment liveness and is excluded).
// `struct SmtLibSolverCtx`, `enum Error`, `enum CheckSatResponse` are cut verbatim from solver.rs; the types of the
// process handles are replaced by the opaque types below (logged substitutions).
// ======================================================================================
pub uninterp spec fn spec_trim(s: Seq<char>) -> Seq<char>;
/// scanner state of smt/parser.rs count_parens: inside a string literal, inside a |quoted symbol|, balance so far
pub struct PState { pub in_string: bool, pub in_symbol: bool, pub count: int }

pub open spec fn pstep(p: PState, c: char) -> PState {
    if p.in_string { PState { in_string: c != '"', in_symbol: p.in_symbol, count: p.count } }
    else if p.in_symbol { PState { in_string: p.in_string, in_symbol: c != '|', count: p.count } }
    else if c == '"' { PState { in_string: true, in_symbol: false, count: p.count } }
    else if c == '|' { PState { in_string: false, in_symbol: true, count: p.count } }
    else if c == '(' { PState { in_string: false, in_symbol: false, count: p.count + 1 } }
    else if c == ')' { PState { in_string: false, in_symbol: false, count: p.count - 1 } }
    else { p }
}

pub open spec fn pscan(s: Seq<char>) -> PState
    decreases s.len(),
{
    if s.len() == 0 { PState { in_string: false, in_symbol: false, count: 0 } } else { pstep(pscan(s.drop_last()), s.last()) }
}

/// number of STRUCTURAL '(' minus ')' — parentheses inside string literals and quoted symbols are not structure
/// (the contract of count_parens; checked on the real function by Kani for all texts up to a stated length)
pub open spec fn spec_parens(s: Seq<char>) -> int { pscan(s).count }

/// a blank does not change the balance (proved)
pub broadcast proof fn lemma_parens_push_blank(s: Seq<char>)
    ensures #[trigger] spec_parens(s.push(' ')) == spec_parens(s),
{
    assert(s.push(' ').drop_last() =~= s);
}

pub assume_specification<'a> [ str::trim ] (s: &'a str) -> (r: &'a str)
    ensures r@ == spec_trim(s@);

#[verifier::external_body] pub struct XChild { _p: u8 }
#[verifier::external_body] pub struct XStdin { _p: u8 }
#[verifier::external_body] pub struct XStdout { _p: u8 }
#[verifier::external_body] pub struct XStderr { _p: u8 }
#[verifier::external_body] pub struct XFile { _p: u8 }
#[verifier::external_body] pub struct XSymbolTable { _p: u8 }
#[verifier::external_body] pub struct XIoError { _p: u8 }
#[verifier::external_body] pub struct XParserError { _p: u8 }

//@@EXTRACTED-ITEMS@@

impl XStdout {
    /// bytes the solver will still write before its stdout reaches end of stream
    pub uninterp spec fn remaining(&self) -> nat;

    /// BufRead::read_line: appends one line; Ok(0) exactly at end of stream (`?` converts io::Error into Error::Io)
    /// PROTOCOL (requires): the solver writes one reply per request and then waits; a reply is complete as soon as it has no
    /// open parenthesis left.  Asking for another line after a complete reply blocks for ever on a live solver, so a reader may
    /// only call this on an empty buffer (first line of a reply) or while the reply read so far is incomplete.
    #[verifier::external_body]
    pub fn read_line(&mut self, buf: &mut String) -> (r: Result<usize>)
        requires old(buf)@.len() == 0 || spec_parens(old(buf)@) > 0,
        ensures match r {
            Ok(n) => n <= old(self).remaining() && final(self).remaining() == old(self).remaining() - n
                     && ((n == 0) <==> (old(self).remaining() == 0)),
            Err(_) => true,
        },
    { unimplemented!() }
}

impl XStdin {
    #[verifier::external_body]
    pub fn flush(&mut self) -> (r: Result<()>)
    { unimplemented!() }
}

/// smt/parser.rs count_parens: number of '(' minus number of ')'
#[verifier::external_body]
pub fn count_parens(s: &String) -> (r: i64)
    ensures r == spec_parens(s@),
{ unimplemented!() }
