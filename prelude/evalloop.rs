// ======================================================================================
// prelude/evalloop.rs — vocabulary of unit `evalloop` (the explicit-stack traversal of eval_expr_internal)
// ======================================================================================
impl Expr {
    /// R4: the operands that for_each_child visits, in order (contract of for_each_child, verified in unit eval_arms)
    #[verifier::external_body]
    pub fn children_vec(&self) -> (r: Vec<ExprRef>)
        ensures r@ == kids(*self),
    { unimplemented!() }

    /// types.rs `is_array_type`: the four array-valued variants (syntactic)
    pub open spec fn arr_node(&self) -> bool {
        self is ArraySymbol || self is ArrayConstant || self is ArrayIte || self is ArrayStore
    }
}

/// eval.rs `trait GetExprValue`, seen through what it supplies: a bit-vector (width, value) or an array value per expression
pub trait GetExprValue {
    spec fn bv_at(&self, e: ExprRef) -> Option<(int, int)>;
    spec fn arr_at(&self, e: ExprRef) -> Option<(Den, int, int)>;

    fn get_bv(&self, ctx: &Context, symbol: ExprRef) -> (r: Option<BitVecValue>)
        ensures match r { Some(x) => self.bv_at(symbol) == Some((x.w(), x.v())), None => self.bv_at(symbol) is None };

    fn get_array(&self, ctx: &Context, symbol: ExprRef) -> (r: Option<ArrayValue>)
        ensures match r { Some(x) => self.arr_at(symbol) == Some((x.den(), x.iw(), x.dw())), None => self.arr_at(symbol) is None };
}

/// the traversal asks for a bit-vector value at bit-vector nodes and for an array value at array nodes
pub open spec fn supplied<V: GetExprValue>(ctx: &Context, vals: &V, e: ExprRef) -> bool {
    if ctx.nodes()[e].arr_node() { vals.arr_at(e) is Some } else { vals.bv_at(e) is Some }
}
pub open spec fn supplied_den<V: GetExprValue>(ctx: &Context, vals: &V, e: ExprRef) -> Den {
    if ctx.nodes()[e].arr_node() { vals.arr_at(e)->Some_0.0 } else { d_lit(vals.bv_at(e)->Some_0.0, vals.bv_at(e)->Some_0.1) }
}

/// supplied values have the type of the expression they stand for (a well-typed assignment)
pub open spec fn vals_ok<V: GetExprValue>(ctx: &Context, vals: &V) -> bool {
    &&& forall|e: ExprRef| (#[trigger] vals.bv_at(e)) is Some && ctx.has(e) && !ctx.nodes()[e].arr_node()
            ==> ctx.ty(e) == Type::BV(vals.bv_at(e)->Some_0.0 as u32) && 1 <= vals.bv_at(e)->Some_0.0 <= u32::MAX && v_fits(vals.bv_at(e)->Some_0.0, vals.bv_at(e)->Some_0.1)
    &&& forall|e: ExprRef| (#[trigger] vals.arr_at(e)) is Some && ctx.has(e) && ctx.nodes()[e].arr_node()
            ==> ctx.ty(e) == Type::Array(ArrayType { index_width: vals.arr_at(e)->Some_0.1 as u32, data_width: vals.arr_at(e)->Some_0.2 as u32 })
                && 1 <= vals.arr_at(e)->Some_0.1 <= u32::MAX && 1 <= vals.arr_at(e)->Some_0.2 <= u32::MAX
}

//@@GENERATED-EV@@

/// the evaluator can produce a value for `e`: every path down from `e` ends in a supplied value or a literal before it reaches
/// a symbol without a value or one of the five unimplemented division / remainder operators (the documented panics)
pub open spec fn evaluable<V: GetExprValue>(ctx: &Context, vals: &V, e: ExprRef) -> bool
    decreases e.0,
{
    ctx.has(e) && (supplied(ctx, vals, e) || {
        let n = ctx.nodes()[e];
        &&& !(n is BVSymbol) && !(n is ArraySymbol)
        &&& !(n is BVSignedDiv) && !(n is BVUnsignedDiv) && !(n is BVSignedMod) && !(n is BVSignedRem) && !(n is BVUnsignedRem)
        &&& forall|i: int| 0 <= i < kids(n).len() ==> (#[trigger] kids(n)[i]).0 < e.0 && evaluable(ctx, vals, kids(n)[i])
    })
}

pub type Item = (ExprRef, bool);

/// what the work list will do to the (ghost) list of expressions whose values are on the two value stacks: an item
/// `(e, false)` leaves the value of e; an item `(e, true)` expects the values of e's operands on top — FIRST operand on top —
/// and replaces them by the value of e.  None: the stack discipline is broken.
pub open spec fn run(ctx: &Context, todo: Seq<Item>, sx: Seq<ExprRef>) -> Option<Seq<ExprRef>>
    decreases todo.len(),
{
    if todo.len() == 0 { Some(sx) } else {
        let (e, avail) = todo.last();
        let rest = todo.drop_last();
        if !avail { run(ctx, rest, sx.push(e)) } else {
            let k = kids(ctx.nodes()[e]);
            if on_top(sx, k) { run(ctx, rest, sx.subrange(0, sx.len() - k.len()).push(e)) } else { None }
        }
    }
}

/// the operands `k` are the last |k| entries of sx, first operand last (on top)
pub open spec fn on_top(sx: Seq<ExprRef>, k: Seq<ExprRef>) -> bool {
    sx.len() >= k.len() && forall|i: int| 0 <= i < k.len() ==> sx[sx.len() - 1 - i] == #[trigger] k[i]
}

/// the two value stacks hold, in push order, the values of the expressions of sx (bit-vector ones on bv, array ones on arr),
/// each with the width(s) of its expression's type
pub open spec fn match_stacks<V: GetExprValue>(ctx: &Context, vals: &V, sx: Seq<ExprRef>, bv: Seq<BitVecValue>, arr: Seq<ArrayValue>) -> bool
    decreases sx.len(),
{
    if sx.len() == 0 { bv.len() == 0 && arr.len() == 0 } else {
        let e = sx.last();
        if ctx.nodes()[e].arr_node() {
            arr.len() > 0 && arr.last().den() == ev(ctx, vals, e)
                && ctx.ty(e) == Type::Array(ArrayType { index_width: arr.last().iw() as u32, data_width: arr.last().dw() as u32 })
                && 1 <= arr.last().iw() <= u32::MAX && 1 <= arr.last().dw() <= u32::MAX
                && match_stacks(ctx, vals, sx.drop_last(), bv, arr.drop_last())
        } else {
            bv.len() > 0 && d_lit(bv.last().w(), bv.last().v()) == ev(ctx, vals, e) && ctx.ty(e) == Type::BV(bv.last().w() as u32)
                && 1 <= bv.last().w() <= u32::MAX
                && match_stacks(ctx, vals, sx.drop_last(), bv.drop_last(), arr)
        }
    }
}

/// everything on the work list can be evaluated; an item whose operands are being evaluated has no supplied value
pub open spec fn todo_ok<V: GetExprValue>(ctx: &Context, vals: &V, todo: Seq<Item>) -> bool {
    forall|i: int| 0 <= i < todo.len() ==> evaluable(ctx, vals, (#[trigger] todo[i]).0) && (todo[i].1 ==> !supplied(ctx, vals, todo[i].0))
}
