// ======================================================================================
// prelude/maps.rs — `trait ExprMap<T>` of meta.rs seen through its Index / IndexMut super-traits (R1):
//   m[e]      ==  m.get(e)        (Index::index; the value type is Copy)
//   m[e] = v  ==  m.set(e, v)     (IndexMut::index_mut + store)
// The abstract value is a TOTAL map with default (`at`); both implementations (SparseExprMap, DenseExprMetaData)
// are verified against this interface in unit meta.
// ======================================================================================
/// std::num::NonZeroU32 (modelled: the wrapped value is never 0)
#[derive(PartialEq, Eq, Clone, Copy, Structural)]
pub struct NonZeroU32(pub u32);
impl NonZeroU32 {
    #[verifier::external_body]
    pub fn new(x: u32) -> (r: Option<NonZeroU32>)
        ensures x == 0 ==> r is None, x != 0 ==> r == Some(NonZeroU32(x)),
    { unimplemented!() }
    #[verifier::external_body]
    pub fn get(self) -> (r: u32)
        ensures r == self.0, r >= 1,
    { unimplemented!() }
}

//@@EXTRACTED-ITEMS@@

pub trait ExprMap<V>: Sized {
    spec fn at(&self, e: ExprRef) -> V;

    fn get(&self, e: ExprRef) -> (r: V)
        ensures r == self.at(e);

    fn set(&mut self, e: ExprRef, v: V)
        ensures forall|k: ExprRef| #[trigger] final(self).at(k) == (if k == e { v } else { old(self).at(k) });
}

pub type Chain = spec_fn(ExprRef) -> Option<ExprRef>;
pub type Rank = spec_fn(ExprRef) -> nat;

pub open spec fn chain_of<M: ExprMap<Option<ExprRef>>>(m: &M) -> Chain {
    |k: ExprRef| m.at(k)
}

/// every non-trivial link of the chain goes strictly down in rank: the map is acyclic (apart from self loops)
pub open spec fn ranked(c: Chain, rho: Rank) -> bool {
    forall|k: ExprRef| match #[trigger] c(k) { Some(v) => v != k ==> rho(v) < rho(k), None => true }
}

pub open spec fn acyclic(c: Chain) -> bool { exists|rho: Rank| ranked(c, rho) }

pub open spec fn the_rank(c: Chain) -> Rank { choose|rho: Rank| ranked(c, rho) }

/// follow the chain from k until a self loop (the fixed point) or an unset key
pub open spec fn fix(c: Chain, rho: Rank, k: ExprRef) -> Option<ExprRef>
    decreases rho(k),
{
    match c(k) {
        None => None,
        Some(v) => if v == k { Some(k) } else if rho(v) < rho(k) { fix(c, rho, v) } else { None },
    }
}

//@@MAPS-CONTAINERS@@
// ---------------------------------------------------------------------------------------------------------------
// environment of the two map containers and of DenseExprSet
// ---------------------------------------------------------------------------------------------------------------
/// `T: Default` with a deterministic default value, and `T: Clone` returning an equal value (assumed of the element types)
pub trait DefaultV: Sized {
    spec fn dflt() -> Self;
    fn default() -> (r: Self)
        ensures r == Self::dflt();
}

pub broadcast proof fn ax_cloned_eq<T: DefaultV + Clone>(a: T, b: T)
    requires #[trigger] cloned(a, b),
    ensures a == b,
{ admit(); }

/// zero-based position of a reference (`usize::from(e)`); ExprRef(x) wraps the non-zero value x = position + 1
pub open spec fn pos(e: ExprRef) -> int { e.0.0 - 1 }

#[verifier::external_body]
#[verifier::reject_recursive_types(K)]
#[verifier::reject_recursive_types(V)]
pub struct FxHashMap<K, V> { _k: core::marker::PhantomData<(K, V)> }

impl<K, V> FxHashMap<K, V> {
    pub uninterp spec fn view(&self) -> Map<K, V>;

    #[verifier::external_body]
    pub fn get(&self, k: &K) -> (r: Option<&V>)
        ensures match r { Some(v) => self@.contains_key(*k) && *v == self@[*k], None => !self@.contains_key(*k) },
    { unimplemented!() }

    /// `self.entry(k).or_default()`: a mutable reference to the slot of k, inserting the default value first if k is absent
    #[verifier::external_body]
    pub fn entry_or_default(&mut self, k: K) -> (r: &mut V)
        where V: DefaultV
        ensures *r == (if old(self)@.contains_key(k) { old(self)@[k] } else { V::dflt() }),
                final(self)@ == old(self)@.insert(k, *final(r)),
    { unimplemented!() }
}
