// ======================================================================================
// prelude/driver.rs — vocabulary of unit `driver` (the traversal around the rewrite rules)
// ======================================================================================
impl Expr {
    /// R4: the operands that for_each_child visits, in order (contract of for_each_child, verified in unit eval_arms)
    #[verifier::external_body]
    pub fn children_vec(&self) -> (r: Vec<ExprRef>)
        ensures r@ == kids(*self),
    { unimplemented!() }
}

/// b is reached from a by following n links of the chain
pub open spec fn reach_n(c: Chain, a: ExprRef, b: ExprRef, n: nat) -> bool
    decreases n,
{
    if n == 0 { a == b } else { match c(a) { Some(v) => reach_n(c, v, b, (n - 1) as nat), None => false } }
}
pub open spec fn reach(c: Chain, a: ExprRef, b: ExprRef) -> bool { exists|n: nat| reach_n(c, a, b, n) }

/// the rewrite cache only relates interchangeable expressions: same type, same denotation (this is C01 for cached answers)
pub open spec fn cache_ok<M: ExprMap<Option<ExprRef>>>(ctx: &Context, m: &M) -> bool {
    forall|k: ExprRef| (#[trigger] m.at(k)) is Some ==> ctx.has(k) && same(ctx, m.at(k)->Some_0, k)
}

/// every element of the work list is an expression of the context
pub open spec fn all_has(ctx: &Context, s: Seq<ExprRef>) -> bool {
    forall|i: int| 0 <= i < s.len() ==> ctx.has(#[trigger] s[i])
}

/// what path compression may do to the cache: an entry that changes was set, stays set, and now points further along its own chain
pub open spec fn compressed<M: ExprMap<Option<ExprRef>>>(m0: &M, m1: &M) -> bool {
    forall|k: ExprRef| #[trigger] m1.at(k) != m0.at(k) ==> m0.at(k) is Some && m1.at(k) is Some && reach(chain_of(m0), k, m1.at(k)->Some_0)
}
