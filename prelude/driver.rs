// ======================================================================================
// prelude/driver.rs — vocabulary of unit `driver` (the traversal around the rewrite rules)
// ======================================================================================
impl Expr {
    /// R4: the operands that for_each_child visits, in order (contract of for_each_child, verified in unit eval_arms)
    #[verifier::external_body]
    pub fn children_vec(&self) -> (r: Vec<ExprRef>)
        ensures r@ == kids(*self),
    { unimplemented!() }
}

/// b is reached from a by following n links of the chain
pub open spec fn reach_n(c: Chain, a: ExprRef, b: ExprRef, n: nat) -> bool
    decreases n,
{
    if n == 0 { a == b } else { match c(a) { Some(v) => reach_n(c, v, b, (n - 1) as nat), None => false } }
}
pub open spec fn reach(c: Chain, a: ExprRef, b: ExprRef) -> bool { exists|n: nat| reach_n(c, a, b, n) }

/// the rewrite cache only relates interchangeable expressions: same type, same denotation (this is C01 for cached answers)
pub open spec fn cache_ok<M: ExprMap<Option<ExprRef>>>(ctx: &Context, m: &M) -> bool {
    forall|k: ExprRef| (#[trigger] m.at(k)) is Some ==> ctx.has(k) && same(ctx, m.at(k)->Some_0, k)
}

/// every element of the work list is an expression of the context
pub open spec fn all_has(ctx: &Context, s: Seq<ExprRef>) -> bool {
    forall|i: int| 0 <= i < s.len() ==> ctx.has(#[trigger] s[i])
}

/// what path compression may do to the cache: an entry that changes was set and now holds the returned fixed point, which
/// lies further along its own chain
pub open spec fn compressed<M: ExprMap<Option<ExprRef>>>(m0: &M, m1: &M, res: Option<ExprRef>) -> bool {
    forall|k: ExprRef| #[trigger] m1.at(k) != m0.at(k) ==> m0.at(k) is Some && res is Some && m1.at(k) == res && reach(chain_of(m0), k, res->Some_0)
}

/// `v` will get (or has) an answer: it is cached, still on the work list, or is the expression being processed right now
pub open spec fn pending<M: ExprMap<Option<ExprRef>>>(m: &M, todo: Seq<ExprRef>, extra: Option<ExprRef>, v: ExprRef) -> bool {
    m.at(v) is Some || todo.contains(v) || extra == Some(v)
}

/// every cached answer is itself pending: at the end of the traversal (empty work list) every chain ends in a self loop or
/// goes on for ever, it never hits an unset key — that is why the final `get_fixed_point(..).unwrap()` cannot panic
pub open spec fn closed_mod<M: ExprMap<Option<ExprRef>>>(m: &M, todo: Seq<ExprRef>, extra: Option<ExprRef>) -> bool {
    forall|k: ExprRef| (#[trigger] m.at(k)) is Some ==> pending(m, todo, extra, m.at(k)->Some_0)
}

pub open spec fn roots_pending<M: ExprMap<Option<ExprRef>>>(m: &M, todo: Seq<ExprRef>, extra: Option<ExprRef>, roots: Seq<ExprRef>) -> bool {
    forall|i: int| 0 <= i < roots.len() ==> pending(m, todo, extra, #[trigger] roots[i])
}

/// the traversal is over: every cached answer has an answer
pub open spec fn closed<M: ExprMap<Option<ExprRef>>>(m: &M) -> bool {
    forall|k: ExprRef| (#[trigger] m.at(k)) is Some ==> m.at(m.at(k)->Some_0) is Some
}

/// the chain from `key` reaches a key without an answer
pub open spec fn hits_unset(c: Chain, key: ExprRef) -> bool {
    exists|k: ExprRef| #[trigger] reach(c, key, k) && c(k) is None
}

/// meta.rs SparseExprMap (its Index / IndexMut bodies are verified in unit meta against this interface); `#[derive(Default)]`
/// gives the empty table with default `None`
#[verifier::external_body]
#[verifier::reject_recursive_types(T)]
pub struct SparseExprMap<T> { _p: core::marker::PhantomData<T> }

impl ExprMap<Option<ExprRef>> for SparseExprMap<Option<ExprRef>> {
    uninterp spec fn at(&self, e: ExprRef) -> Option<ExprRef>;
    #[verifier::external_body]
    fn get(&self, e: ExprRef) -> (r: Option<ExprRef>) { unimplemented!() }
    #[verifier::external_body]
    fn set(&mut self, e: ExprRef, v: Option<ExprRef>) { unimplemented!() }
}

impl SparseExprMap<Option<ExprRef>> {
    #[verifier::external_body]
    pub fn default() -> (r: Self)
        ensures forall|k: ExprRef| (#[trigger] r.at(k)) is None,
    { unimplemented!() }
}
