// ======================================================================================
// prelude/ctx_concrete.rs — Layer 1 (unit context, C12): `Context` is the REAL struct of context.rs (cut verbatim, the two
// dependency types spelled IndexSet<T> / ValueInterner); the ghost view that the other units leave uninterpreted is DEFINED
// here from its fields, so the builder contracts are proved, not assumed.
// Assumed (dependencies): indexmap::IndexSet and baa::ValueInterner contracts below.
// ======================================================================================

/// indexmap::IndexSet<T, S>: an insertion-ordered set.  view = the elements in insertion order, without duplicates.
#[verifier::external_body]
#[verifier::reject_recursive_types(T)]
pub struct IndexSet<T> { _p: core::marker::PhantomData<T> }

impl<T> IndexSet<T> {
    pub uninterp spec fn view(&self) -> Seq<T>;

    pub open spec fn inv(&self) -> bool { self@.no_duplicates() }

    /// appends iff absent, returns the position of the value.
    /// RESOURCE ASSUMPTION (last ensures): fewer than 2^32 - 1 elements are ever stored (ExprRef / StringRef are 32-bit; the
    /// real code truncates silently beyond that).
    #[verifier::external_body]
    pub fn insert_full(&mut self, value: T) -> (r: (usize, bool))
        requires old(self).inv(),
        ensures final(self).inv(),
                old(self)@.contains(value) ==> final(self)@ == old(self)@ && !r.1 && r.0 < old(self)@.len() && old(self)@[r.0 as int] == value,
                !old(self)@.contains(value) ==> final(self)@ == old(self)@.push(value) && r.1 && r.0 == old(self)@.len(),
                r.0 < u32::MAX - 1,
    { unimplemented!() }

    /// `IndexSet::default()`: the empty table
    #[verifier::external_body]
    pub fn default() -> (r: Self)
        ensures r@ == Seq::<T>::empty(),
    { unimplemented!() }

    /// RESOURCE ASSUMPTION: fewer than 2^32 - 1 elements are ever stored
    pub broadcast proof fn ax_table_bound(&self)
        ensures #[trigger] self@.len() < u32::MAX,
    { admit(); }

    #[verifier::external_body]
    pub fn get_index(&self, i: usize) -> (r: Option<&T>)
        ensures r == (if i < self@.len() { Some(&self@[i as int]) } else { None::<&T> }),
    { unimplemented!() }
}

/// baa::ValueInterner: one BitVecValueIndex per (width, value); the numbers 0..7 live at indices 0..7
#[verifier::external_body]
pub struct ValueInterner { _p: u8 }

impl ValueInterner {
    pub uninterp spec fn interned(&self, i: BitVecValueIndex) -> bool;
    pub uninterp spec fn val(&self, i: BitVecValueIndex) -> int;

    pub open spec fn inv(&self) -> bool {
        &&& forall|i: BitVecValueIndex, j: BitVecValueIndex| #[trigger] self.interned(i) && #[trigger] self.interned(j)
                && i.width == j.width && self.val(i) == self.val(j) ==> i == j
        &&& forall|i: BitVecValueIndex| #[trigger] self.interned(i) ==> ((i.index == 0) <==> (self.val(i) == 0)) && ((i.index == 1) <==> (self.val(i) == 1))
                && v_fits(i.width as int, self.val(i)) && i.width >= 1
    }

    pub open spec fn extends(&self, old: &ValueInterner) -> bool {
        forall|i: BitVecValueIndex| #[trigger] old.interned(i) ==> self.interned(i) && self.val(i) == old.val(i)
    }

    /// `baa::ValueInterner::default()` (it pre-interns the numbers 0..7 at the indices 0..7, which is part of `inv`)
    #[verifier::external_body]
    pub fn default() -> (r: Self)
        ensures r.inv(),
    { unimplemented!() }

    #[verifier::external_body]
    pub fn get_index(&mut self, value: &BitVecValue) -> (r: BitVecValueIndex)
        requires old(self).inv(),
        ensures final(self).inv(), final(self).extends(old(self)), final(self).interned(r), r.width == value.w(), final(self).val(r) == value.v(),
    { unimplemented!() }
}

/// the expression table as a finite map: position i holds the node of reference ExprRef(i + 1)
pub open spec fn table_map(s: Seq<Expr>) -> Map<ExprRef, Expr>
    decreases s.len(),
{
    if s.len() == 0 { Map::empty() } else { table_map(s.drop_last()).insert(ExprRef(s.len() as u32), s.last()) }
}

pub proof fn lemma_table_map(s: Seq<Expr>)
    requires s.len() <= u32::MAX,
    ensures table_map(s).dom().finite(),
            forall|r: ExprRef| #[trigger] table_map(s).contains_key(r) <==> 1 <= r.0 <= s.len(),
            forall|r: ExprRef| 1 <= r.0 <= s.len() ==> #[trigger] table_map(s)[r] == s[r.0 - 1],
    decreases s.len(),
{
    if s.len() > 0 {
        lemma_table_map(s.drop_last());
        assert forall|r: ExprRef| 1 <= r.0 <= s.len() implies #[trigger] table_map(s)[r] == s[r.0 - 1] by {
            if r.0 == s.len() { assert(r == ExprRef(s.len() as u32)); } else { assert(s.drop_last()[r.0 - 1] == s[r.0 - 1]); }
        }
    }
}

/// the instance of `value.try_into()` / `width.try_into()` for the monomorphic signature under which bit_vec_val is verified
/// (`u32 -> u128` and `u32 -> u32` are the std widening / identity conversions and cannot fail)
#[verifier::external_body]
pub fn try_into_u128(v: u32) -> (r: Result<u128, ()>)
    ensures r == Ok::<u128, ()>(v as u128),
{ unimplemented!() }
#[verifier::external_body]
pub fn try_into_width(w: WidthInt) -> (r: Result<WidthInt, ()>)
    ensures r == Ok::<WidthInt, ()>(w),
{ unimplemented!() }

impl BitVecValueIndex {
    /// baa: plain constructor of the (index, width) handle — it does NOT intern anything
    #[verifier::external_body]
    pub fn new(index: u32, width: WidthInt) -> (r: BitVecValueIndex)
        ensures r.index == index, r.width == width,
    { unimplemented!() }
}

//@@CONTEXT-STRUCT@@

pub open spec fn bv_of(t: Type) -> Option<WidthInt> {
    match t { Type::BV(w) => Some(w), Type::Array(_) => None }
}

//@@GENERATED-TY-DEN@@

impl Context {
    // ---------------------------------------------------------------- the ghost view, defined from the fields
    pub open spec fn nodes(&self) -> Map<ExprRef, Expr> { table_map(self.exprs@) }
    pub open spec fn lit_v(&self, l: BVLitValue) -> int { self.values.val(l.0) }
    pub open spec fn lit_interned(&self, l: BVLitValue) -> bool { self.values.interned(l.0) }
    pub open spec fn ref_of(&self, n: Expr) -> ExprRef { choose|r: ExprRef| self.nodes().contains_key(r) && self.nodes()[r] == n }
    pub open spec fn lit_of(&self, w: WidthInt, v: int) -> BVLitValue {
        choose|l: BVLitValue| self.values.interned(l.0) && l.0.width == w && self.values.val(l.0) == v
    }
    pub open spec fn true_ref(&self) -> ExprRef { self.true_expr_ref }
    pub open spec fn false_ref(&self) -> ExprRef { self.false_expr_ref }

    /// representation invariant of the fields that the API-level `wf` does not mention
    pub open spec fn rep(&self) -> bool { self.exprs.inv() && self.strings.inv() && self.values.inv() && self.exprs@.len() < u32::MAX }

    /// what the finite map `nodes()` is, in terms of the table
    pub proof fn lemma_nodes(&self)
        ensures self.nodes().dom().finite(),
                forall|r: ExprRef| #[trigger] self.has(r) <==> 1 <= r.0 <= self.exprs@.len(),
                forall|r: ExprRef| #[trigger] self.nodes().contains_key(r) <==> 1 <= r.0 <= self.exprs@.len(),
                forall|r: ExprRef| 1 <= r.0 <= self.exprs@.len() ==> #[trigger] self.nodes()[r] == self.exprs@[r.0 - 1],
    {
        self.exprs.ax_table_bound();
        lemma_table_map(self.exprs@);
    }

