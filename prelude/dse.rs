// ======================================================================================
// prelude/dse.rs — environment of patronus-dse/src/value_summary.rs.
//   Guard     = boolean_expression::BDDFunc (an index into the BDD manager); modelled as a transparent newtype
//   GuardCtx  : ASSUMED contracts of the BDD operations over an abstract semantics `holds(g, x)` ("guard g is true under
//               valuation x of the guard terminals"); existing guards keep their meaning when new BDD nodes are created
//   FxHashMap : ASSUMED map contracts (key equality is spec equality, i.e. V's Eq/Hash are lawful)
// ======================================================================================
#[derive(PartialEq, Eq, Clone, Copy, Structural)]
pub struct Guard(pub u64);

#[verifier::external_body]
pub struct GuardCtx { _p: u8 }

impl GuardCtx {
    pub uninterp spec fn holds(&self, g: Guard, x: int) -> bool;
    pub uninterp spec fn known(&self, g: Guard) -> bool;

    /// FRAME of every BDD operation
    pub open spec fn extends(&self, old: &GuardCtx) -> bool {
        forall|g: Guard| #[trigger] old.known(g) ==> self.known(g) && (forall|x: int| self.holds(g, x) == old.holds(g, x))
    }

    #[verifier::external_body]
    pub fn or(&mut self, a: Guard, b: Guard) -> (r: Guard)
        requires old(self).known(a), old(self).known(b),
        ensures final(self).extends(old(self)), final(self).known(r),
                forall|x: int| #[trigger] final(self).holds(r, x) == (old(self).holds(a, x) || old(self).holds(b, x)),
    { unimplemented!() }

    #[verifier::external_body]
    pub fn and(&mut self, a: Guard, b: Guard) -> (r: Guard)
        requires old(self).known(a), old(self).known(b),
        ensures final(self).extends(old(self)), final(self).known(r),
                forall|x: int| #[trigger] final(self).holds(r, x) == (old(self).holds(a, x) && old(self).holds(b, x)),
    { unimplemented!() }

    #[verifier::external_body]
    pub fn not(&mut self, e: Guard) -> (r: Guard)
        requires old(self).known(e),
        ensures final(self).extends(old(self)), final(self).known(r),
                forall|x: int| #[trigger] final(self).holds(r, x) == !old(self).holds(e, x),
    { unimplemented!() }
}

pub struct FxBuildHasher;

#[verifier::external_body]
#[verifier::reject_recursive_types(K)]
#[verifier::reject_recursive_types(V)]
pub struct FxHashMap<K, V> { _k: core::marker::PhantomData<(K, V)> }

impl<K, V> FxHashMap<K, V> {
    pub uninterp spec fn view(&self) -> Map<K, V>;

    #[verifier::external_body]
    pub fn with_capacity_and_hasher(n: usize, h: FxBuildHasher) -> (r: Self)
        ensures r@ == Map::<K, V>::empty(),
    { unimplemented!() }

    #[verifier::external_body]
    pub fn get(&self, k: &K) -> (r: Option<&V>)
        ensures match r { Some(v) => self@.contains_key(*k) && *v == self@[*k], None => !self@.contains_key(*k) },
    { unimplemented!() }

    #[verifier::external_body]
    pub fn insert(&mut self, k: K, v: V) -> (r: Option<V>)
        ensures final(self)@ == old(self)@.insert(k, v),
    { unimplemented!() }
}

/// `trait Value: Clone + Eq + Hash` of value_summary.rs (its `clone` is assumed to return an equal value)
pub trait Value: Sized {
}

//@@EXTRACTED-ITEMS@@

impl<V: Value> Entry<V> {
    /// `#[derive(Clone)]` on Entry; V::clone is assumed to return an equal value
    #[verifier::external_body]
    pub fn clone(&self) -> (r: Self)
        ensures r == *self,
    { unimplemented!() }
}

/// entries with the positions in `del` removed, order kept
pub open spec fn keep<T>(s: Seq<T>, del: Set<int>) -> Seq<T>
    decreases s.len(),
{
    if s.len() == 0 { s } else {
        let front = keep(s.drop_last(), del);
        if del.contains(s.len() - 1) { front } else { front.push(s.last()) }
    }
}

/// entry k of the summary applies under valuation x
pub open spec fn hit<V: Value>(gc: &GuardCtx, s: Seq<Entry<V>>, x: int, k: int) -> bool {
    0 <= k < s.len() && gc.holds(s[k].guard, x)
}

/// an entry that applies under x
pub open spec fn pick<V: Value>(gc: &GuardCtx, s: Seq<Entry<V>>, x: int) -> int {
    choose|k: int| hit(gc, s, x, k)
}

/// C20: the summary denotes a TOTAL FUNCTION — under every valuation of the guard terminals exactly one entry applies
/// (the guards are pairwise disjoint and jointly exhaustive); its value under x is `s[pick(gc, s, x)].value`
pub open spec fn partition<V: Value>(gc: &GuardCtx, s: Seq<Entry<V>>) -> bool {
    forall|x: int| #![trigger pick(gc, s, x)] hit(gc, s, x, pick(gc, s, x)) && (forall|j: int| #[trigger] hit(gc, s, x, j) ==> j == pick(gc, s, x))
}

/// the positions of a delete list, as a set
pub open spec fn del_set(dl: Seq<usize>) -> Set<int> { dl.map_values(|i: usize| i as int).to_set() }

/// position k has been scheduled for deletion
pub open spec fn dead(dl: Seq<usize>, k: int) -> bool {
    exists|i: int| 0 <= i < dl.len() && #[trigger] dl[i] == k
}

pub open spec fn all_below(s: Seq<usize>, b: int) -> bool {
    forall|i: int| 0 <= i < s.len() ==> (#[trigger] s[i]) < b
}

pub open spec fn strictly_ascending(s: Seq<usize>) -> bool {
    forall|i: int, j: int| 0 <= i < j < s.len() ==> s[i] < s[j]
}

/// `<[usize]>::sort_unstable` (R1': `v.sort_unstable()` is spelled `sort_unstable_usize(&mut v)`)
#[verifier::external_body]
pub fn sort_unstable_usize(v: &mut Vec<usize>)
    ensures final(v)@.len() == old(v)@.len(),
            final(v)@.to_multiset() == old(v)@.to_multiset(),
            forall|i: int, j: int| 0 <= i < j < final(v)@.len() ==> final(v)@[i] <= final(v)@[j],
            // a sorted permutation of a duplicate-free sequence is strictly ascending, and has the same elements
            old(v)@.no_duplicates() ==> strictly_ascending(final(v)@),
            forall|x: usize| old(v)@.contains(x) <==> final(v)@.contains(x),
            forall|b: int| #[trigger] all_below(old(v)@, b) ==> all_below(final(v)@, b),
{ unimplemented!() }
