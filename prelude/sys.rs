// ======================================================================================
// prelude/sys.rs — environment of patronus/src/system/analysis.rs (cone of influence).
//   TransitionSystem: opaque, with ghost views of its state map and input set (state_map / input_set build
//                     FxHashMap / FxHashSet from the `states` / `inputs` vectors: assumed).
//   DenseExprSet    : ghost `Set<ExprRef>` view; its bit-level implementation is verified in unit meta (C13).
// `struct State` is cut verbatim from transition_system.rs.
// ======================================================================================
pub assume_specification<T>[ Option::<T>::or ](a: Option<T>, b: Option<T>) -> (r: Option<T>)
    ensures r == (if a is Some { a } else { b });

//@@EXTRACTED-ITEMS@@

#[verifier::external_body]
pub struct TransitionSystem { _p: u8 }

#[verifier::external_body]
pub struct StateMap<'a> { _p: &'a u8 }

#[verifier::external_body]
pub struct InputSet { _p: u8 }

impl TransitionSystem {
    pub uninterp spec fn states(&self) -> Map<ExprRef, State>;
    pub uninterp spec fn inputs(&self) -> Set<ExprRef>;

    /// every state's symbol, init and next expression live in the context
    pub open spec fn wf(&self, ctx: &Context) -> bool {
        forall|s: ExprRef| #[trigger] self.states().contains_key(s) ==> ctx.has(s)
            && (self.states()[s].init is Some ==> ctx.has(self.states()[s].init->Some_0))
            && (self.states()[s].next is Some ==> ctx.has(self.states()[s].next->Some_0))
    }

    #[verifier::external_body]
    pub fn state_map(&self) -> (r: StateMap<'_>)
        ensures r@ == self.states(),
    { unimplemented!() }

    #[verifier::external_body]
    pub fn input_set(&self) -> (r: InputSet)
        ensures r@ == self.inputs(),
    { unimplemented!() }
}

impl<'a> StateMap<'a> {
    pub uninterp spec fn view(&self) -> Map<ExprRef, State>;

    #[verifier::external_body]
    pub fn get(&self, k: &ExprRef) -> (r: Option<&&'a State>)
        ensures match r { Some(s) => self@.contains_key(*k) && **s == self@[*k], None => !self@.contains_key(*k) },
    { unimplemented!() }

    #[verifier::external_body]
    pub fn contains_key(&self, k: &ExprRef) -> (r: bool)
        ensures r == self@.contains_key(*k),
    { unimplemented!() }
}

impl InputSet {
    pub uninterp spec fn view(&self) -> Set<ExprRef>;

    #[verifier::external_body]
    pub fn contains(&self, k: &ExprRef) -> (r: bool)
        ensures r == self@.contains(*k),
    { unimplemented!() }
}

#[verifier::external_body]
pub struct DenseExprSet { _p: u8 }

impl DenseExprSet {
    pub uninterp spec fn view(&self) -> Set<ExprRef>;

    #[verifier::external_body]
    pub fn default() -> (r: DenseExprSet)
        ensures r@ == Set::<ExprRef>::empty(),
    { unimplemented!() }

    #[verifier::external_body]
    pub fn contains(&self, value: &ExprRef) -> (r: bool)
        ensures r == self@.contains(*value),
    { unimplemented!() }

    #[verifier::external_body]
    pub fn insert(&mut self, value: ExprRef) -> (r: bool)
        ensures final(self)@ == old(self)@.insert(value), r == !old(self)@.contains(value),
    { unimplemented!() }
}

impl Expr {
    /// R4: the operands that for_each_child visits, in order (contract of for_each_child, verified in unit eval_arms)
    #[verifier::external_body]
    pub fn children_vec(&self) -> (r: Vec<ExprRef>)
        ensures r@ == kids(*self),
    { unimplemented!() }
}

// ---------------------------------------------------------------------------------------------------------------
// C17 vocabulary: the dependency relation of a cone variant and the least dependency-closed set containing the root
// ---------------------------------------------------------------------------------------------------------------
/// `d` is a direct dependency of `x`: an operand, or (for a state symbol) its init / next expression if the variant follows them
pub open spec fn dep(ctx: &Context, sys: &TransitionSystem, follow_next: bool, follow_init: bool, x: ExprRef, d: ExprRef) -> bool {
    ||| kids(ctx.nodes()[x]).contains(d)
    ||| (sys.states().contains_key(x) && follow_init && sys.states()[x].init == Some(d))
    ||| (sys.states().contains_key(x) && follow_next && sys.states()[x].next == Some(d))
}

pub open spec fn closed(ctx: &Context, sys: &TransitionSystem, follow_next: bool, follow_init: bool, s: Set<ExprRef>) -> bool {
    forall|x: ExprRef, d: ExprRef| s.contains(x) && #[trigger] dep(ctx, sys, follow_next, follow_init, x, d) ==> s.contains(d)
}

/// x is in EVERY dependency-closed set that contains the root, i.e. root syntactically depends on x through the followed links
pub open spec fn in_cone(ctx: &Context, sys: &TransitionSystem, follow_next: bool, follow_init: bool, root: ExprRef, x: ExprRef) -> bool {
    forall|s: Set<ExprRef>| #[trigger] closed(ctx, sys, follow_next, follow_init, s) && s.contains(root) ==> s.contains(x)
}

/// one dependency step stays inside the cone (proved)
pub broadcast proof fn lemma_in_cone_step(ctx: &Context, sys: &TransitionSystem, follow_next: bool, follow_init: bool, root: ExprRef, x: ExprRef, d: ExprRef)
    requires #[trigger] in_cone(ctx, sys, follow_next, follow_init, root, x), #[trigger] dep(ctx, sys, follow_next, follow_init, x, d),
    ensures in_cone(ctx, sys, follow_next, follow_init, root, d),
{
}

/// goal-directed form: d is in the cone if SOME cone element depends on it (proved from lemma_in_cone_step)
pub broadcast proof fn lemma_in_cone_intro(ctx: &Context, sys: &TransitionSystem, follow_next: bool, follow_init: bool, root: ExprRef, d: ExprRef)
    requires exists|x: ExprRef| #[trigger] in_cone(ctx, sys, follow_next, follow_init, root, x) && dep(ctx, sys, follow_next, follow_init, x, d),
    ensures #[trigger] in_cone(ctx, sys, follow_next, follow_init, root, d),
{
    let x = choose|x: ExprRef| #[trigger] in_cone(ctx, sys, follow_next, follow_init, root, x) && dep(ctx, sys, follow_next, follow_init, x, d);
    lemma_in_cone_step(ctx, sys, follow_next, follow_init, root, x, d);
}

pub proof fn lemma_root_in_cone(ctx: &Context, sys: &TransitionSystem, follow_next: bool, follow_init: bool, root: ExprRef)
    ensures in_cone(ctx, sys, follow_next, follow_init, root, root),
{
}

/// what the cone reports: symbols that are states or inputs of the system
pub open spec fn reportable(ctx: &Context, sys: &TransitionSystem, x: ExprRef) -> bool {
    (ctx.nodes()[x] is BVSymbol || ctx.nodes()[x] is ArraySymbol) && (sys.states().contains_key(x) || sys.inputs().contains(x))
}

/// the statement of C17 (syntactic part) for one variant
pub open spec fn cone_post(ctx: &Context, sys: &TransitionSystem, follow_next: bool, follow_init: bool, root: ExprRef, res: Seq<ExprRef>) -> bool {
    // only inputs and states, each syntactically reachable from the root through the followed links (tight)
    &&& forall|i: int| 0 <= i < res.len() ==> reportable(ctx, sys, #[trigger] res[i]) && in_cone(ctx, sys, follow_next, follow_init, root, res[i])
    &&& forall|i: int, j: int| 0 <= i < j < res.len() ==> res[i] != res[j]
    // sufficient: some dependency-closed set containing the root has all its state/input symbols reported
    &&& exists|v: Set<ExprRef>| #[trigger] closed(ctx, sys, follow_next, follow_init, v) && v.contains(root)
            && (forall|x: ExprRef| v.contains(x) && reportable(ctx, sys, x) ==> res.contains(x))
}
