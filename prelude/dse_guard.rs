// ======================================================================================
// prelude/dse_guard.rs — additions to prelude/dse.rs for unit dse_guard (C20: new / to_guard / import_into_guard / apply_ite).
//   * the BDD constants and constant tests of GuardCtx (ASSUMED, same abstract semantics `holds`)
//   * the contracts of the traits `Value` and `ToGuard` (ASSUMED for every implementation): a boolean value has a meaning
//     `holds(x)` under every valuation x of the guard terminals; `to_guard` answers `Guard(g)` with g equivalent to the value
//     exactly for the values that are `guardable()`
// ======================================================================================
impl GuardCtx {
    #[verifier::external_body]
    pub fn get_true(&mut self) -> (r: Guard)
        ensures final(self).extends(old(self)), final(self).known(r), forall|x: int| #[trigger] final(self).holds(r, x),
    { unimplemented!() }

    #[verifier::external_body]
    pub fn get_false(&mut self) -> (r: Guard)
        ensures final(self).extends(old(self)), final(self).known(r), forall|x: int| !#[trigger] final(self).holds(r, x),
    { unimplemented!() }

    /// `matches!(e, BDD_ONE)`: only the constant-true function answers true
    #[verifier::external_body]
    pub fn is_true(&self, e: Guard) -> (r: bool)
        requires self.known(e),
        ensures r ==> forall|x: int| #[trigger] self.holds(e, x),
    { unimplemented!() }

    #[verifier::external_body]
    pub fn is_false(&self, e: Guard) -> (r: bool)
        requires self.known(e),
        ensures r ==> forall|x: int| !#[trigger] self.holds(e, x),
    { unimplemented!() }
}

pub trait Value: Sized {
    type Context;
    /// meaning of a boolean value under valuation x of the guard terminals
    spec fn holds(&self, x: int) -> bool;
    /// ToGuard::to_guard turns the value into a guard
    spec fn guardable(&self) -> bool;

    fn is_true(&self, ec: &Self::Context) -> (r: bool)
        ensures r ==> forall|x: int| #[trigger] self.holds(x);

    fn is_false(&self, ec: &Self::Context) -> (r: bool)
        ensures r ==> forall|x: int| !#[trigger] self.holds(x);
}
