// ======================================================================================
// prelude/baa.rs — ASSUMED contracts of the `baa` 0.19 bit-vector value library (a dependency).
// Each value has a width w() >= 1 and a canonical natural-number value v() < 2^w.
// The operations are specified through the literal-level functions v_* of the algebra;
// the Kani kernel harnesses (engine KL, property C06) check the real baa code against the
// same v_* read as machine arithmetic, for a stated finite set of widths.
// ======================================================================================
pub type WidthInt = u32;

#[verifier::external_body]
pub struct BitVecValue { _p: u8 }

#[verifier::external_body]
#[derive(Clone, Copy)]
pub struct BitVecValueRef<'a> { _p: &'a u8 }

pub trait BitVecOps: Sized {
    spec fn w(&self) -> int;
    spec fn v(&self) -> int;

    /// canonical representation: a positive width and no bits above it (checked by KL)
    proof fn lemma_canonical(&self)
        ensures self.w() >= 1, self.w() <= u32::MAX, v_fits(self.w(), self.v());
}

// The operations of `trait BitVecOps` (baa/src/bv/ops.rs), declared once and instantiated by the driver for the two
// implementors used by patronus: `BitVecValue` and `BitVecValueRef<'_>` (marker OPS-TEMPLATE).
//@@OPS-TEMPLATE-BEGIN@@
    #[verifier::external_body]
    pub fn width(&self) -> (r: WidthInt)
        ensures r == self.w(),
    { unimplemented!() }

    #[verifier::external_body]
    pub fn is_zero(&self) -> (r: bool)
        ensures r == (self.v() == 0),
    { unimplemented!() }

    #[verifier::external_body]
    pub fn is_one(&self) -> (r: bool)
        ensures r == (self.v() == 1),
    { unimplemented!() }

    #[verifier::external_body]
    pub fn is_all_ones(&self) -> (r: bool)
        ensures r == (self.v() == v_ones(self.w())),
    { unimplemented!() }

    #[verifier::external_body]
    pub fn is_true(&self) -> (r: bool)
        ensures r == (self.w() == 1 && self.v() == 1),
    { unimplemented!() }

    #[verifier::external_body]
    pub fn is_false(&self) -> (r: bool)
        ensures r == (self.w() == 1 && self.v() == 0),
    { unimplemented!() }

    #[verifier::external_body]
    pub fn to_bool(&self) -> (r: Option<bool>)
        ensures r == (if self.w() == 1 { Some(self.v() == 1) } else { None::<bool> }),
    { unimplemented!() }

    #[verifier::external_body]
    pub fn to_u64(&self) -> (r: Option<u64>)
        ensures match r { Some(x) => x as int == self.v(), None => self.v() >= 0x1_0000_0000_0000_0000 },
    { unimplemented!() }

    /// Some(k) iff the value is 2^k
    #[verifier::external_body]
    pub fn is_pow_2(&self) -> (r: Option<WidthInt>)
        ensures match r { Some(k) => self.v() == pow2i(k as int) && (k as int) < self.w(), None => true },
    { unimplemented!() }

    #[verifier::external_body]
    pub fn is_equal<R: BitVecOps>(&self, rhs: &R) -> (r: bool)
        requires self.w() == rhs.w(),
        ensures r == v_eq(self.w(), self.v(), rhs.v()),
    { unimplemented!() }

    #[verifier::external_body]
    pub fn is_greater<R: BitVecOps>(&self, rhs: &R) -> (r: bool)
        requires self.w() == rhs.w(),
        ensures r == v_ugt(self.w(), self.v(), rhs.v()),
    { unimplemented!() }

    #[verifier::external_body]
    pub fn is_greater_or_equal<R: BitVecOps>(&self, rhs: &R) -> (r: bool)
        requires self.w() == rhs.w(),
        ensures r == v_uge(self.w(), self.v(), rhs.v()),
    { unimplemented!() }

    #[verifier::external_body]
    pub fn is_greater_signed<R: BitVecOps>(&self, rhs: &R) -> (r: bool)
        requires self.w() == rhs.w(),
        ensures r == v_sgt(self.w(), self.v(), rhs.v()),
    { unimplemented!() }

    #[verifier::external_body]
    pub fn is_greater_or_equal_signed<R: BitVecOps>(&self, rhs: &R) -> (r: bool)
        requires self.w() == rhs.w(),
        ensures r == v_sge(self.w(), self.v(), rhs.v()),
    { unimplemented!() }

    #[verifier::external_body]
    pub fn and<R: BitVecOps>(&self, rhs: &R) -> (r: BitVecValue)
        requires self.w() == rhs.w(),
        ensures r.w() == self.w(), r.v() == v_and(self.w(), self.v(), rhs.v()),
    { unimplemented!() }

    #[verifier::external_body]
    pub fn or<R: BitVecOps>(&self, rhs: &R) -> (r: BitVecValue)
        requires self.w() == rhs.w(),
        ensures r.w() == self.w(), r.v() == v_or(self.w(), self.v(), rhs.v()),
    { unimplemented!() }

    #[verifier::external_body]
    pub fn xor<R: BitVecOps>(&self, rhs: &R) -> (r: BitVecValue)
        requires self.w() == rhs.w(),
        ensures r.w() == self.w(), r.v() == v_xor(self.w(), self.v(), rhs.v()),
    { unimplemented!() }

    #[verifier::external_body]
    pub fn add<R: BitVecOps>(&self, rhs: &R) -> (r: BitVecValue)
        requires self.w() == rhs.w(),
        ensures r.w() == self.w(), r.v() == v_add(self.w(), self.v(), rhs.v()),
    { unimplemented!() }

    #[verifier::external_body]
    pub fn sub<R: BitVecOps>(&self, rhs: &R) -> (r: BitVecValue)
        requires self.w() == rhs.w(),
        ensures r.w() == self.w(), r.v() == v_sub(self.w(), self.v(), rhs.v()),
    { unimplemented!() }

    /// baa 0.19 implements `mul` for one- and two-word values only (wider is `todo!`)
    #[verifier::external_body]
    pub fn mul<R: BitVecOps>(&self, rhs: &R) -> (r: BitVecValue)
        requires self.w() == rhs.w(),
        ensures r.w() == self.w(), r.v() == v_mul(self.w(), self.v(), rhs.v()),
    { unimplemented!() }

    #[verifier::external_body]
    pub fn shift_left<R: BitVecOps>(&self, rhs: &R) -> (r: BitVecValue)
        requires self.w() == rhs.w(),
        ensures r.w() == self.w(), r.v() == v_shl(self.w(), self.v(), rhs.v()),
    { unimplemented!() }

    #[verifier::external_body]
    pub fn shift_right<R: BitVecOps>(&self, rhs: &R) -> (r: BitVecValue)
        requires self.w() == rhs.w(),
        ensures r.w() == self.w(), r.v() == v_lshr(self.w(), self.v(), rhs.v()),
    { unimplemented!() }

    #[verifier::external_body]
    pub fn arithmetic_shift_right<R: BitVecOps>(&self, rhs: &R) -> (r: BitVecValue)
        requires self.w() == rhs.w(),
        ensures r.w() == self.w(), r.v() == v_ashr(self.w(), self.v(), rhs.v()),
    { unimplemented!() }

    #[verifier::external_body]
    pub fn not(&self) -> (r: BitVecValue)
        ensures r.w() == self.w(), r.v() == v_not(self.w(), self.v()),
    { unimplemented!() }

    #[verifier::external_body]
    pub fn negate(&self) -> (r: BitVecValue)
        ensures r.w() == self.w(), r.v() == v_neg(self.w(), self.v()),
    { unimplemented!() }

    #[verifier::external_body]
    pub fn concat<R: BitVecOps>(&self, rhs: &R) -> (r: BitVecValue)
        requires self.w() + rhs.w() <= u32::MAX,
        ensures r.w() == self.w() + rhs.w(), r.v() == v_concat(self.w(), self.v(), rhs.w(), rhs.v()),
    { unimplemented!() }

    #[verifier::external_body]
    pub fn slice(&self, msb: WidthInt, lsb: WidthInt) -> (r: BitVecValue)
        requires lsb <= msb, (msb as int) < self.w(),
        ensures r.w() == msb - lsb + 1, r.v() == v_slice(self.w(), self.v(), msb as int, lsb as int),
    { unimplemented!() }

    #[verifier::external_body]
    pub fn zero_extend(&self, by: WidthInt) -> (r: BitVecValue)
        requires self.w() + by <= u32::MAX,
        ensures r.w() == self.w() + by, r.v() == v_zext(self.w(), self.v(), by as int),
    { unimplemented!() }

    #[verifier::external_body]
    pub fn sign_extend(&self, by: WidthInt) -> (r: BitVecValue)
        requires self.w() + by <= u32::MAX,
        ensures r.w() == self.w() + by, r.v() == v_sext(self.w(), self.v(), by as int),
    { unimplemented!() }
//@@OPS-TEMPLATE-END@@

impl BitVecOps for BitVecValue {
    uninterp spec fn w(&self) -> int;
    uninterp spec fn v(&self) -> int;
    proof fn lemma_canonical(&self) { admit(); }
}

impl<'a> BitVecOps for BitVecValueRef<'a> {
    uninterp spec fn w(&self) -> int;
    uninterp spec fn v(&self) -> int;
    proof fn lemma_canonical(&self) { admit(); }
}

/// a full-width slice of a literal is the literal (proved from the two slice axioms; needed where a value is re-normalised by
/// `x.slice(x.width() - 1, 0)`)
pub broadcast proof fn lemma_slice_full_lit(w: int, v: int, hi: int, lo: int)
    requires w >= 1, hi == w - 1, lo == 0,
    ensures d_lit(hi - lo + 1, #[trigger] v_slice(w, v, hi, lo)) == d_lit(w, v),
{
    broadcast use group_bv_algebra;
    let x = d_lit(w, v);
    assert(d_w(x) == w);
    assert(d_slice(x, hi, lo) == x);
    assert(d_slice(d_lit(w, v), hi, lo) == d_lit(hi - lo + 1, v_slice(w, v, hi, lo)));
}

/// the canonical-representation facts, available to every proof without a call
pub broadcast proof fn ax_bvv_canonical(x: BitVecValue)
    ensures #[trigger] x.w() >= 1, x.w() <= u32::MAX, v_fits(x.w(), x.v()),
{ x.lemma_canonical(); }

pub broadcast proof fn ax_bvr_canonical(x: BitVecValueRef<'_>)
    ensures #[trigger] x.w() >= 1, x.w() <= u32::MAX, v_fits(x.w(), x.v()),
{ x.lemma_canonical(); }

impl BitVecValue {
    /// baa panics on width 0 (`zero bit is not supported!`)
    #[verifier::external_body]
    pub fn zero(width: WidthInt) -> (r: BitVecValue)
        requires width >= 1,
        ensures r.w() == width, r.v() == 0,
    { unimplemented!() }

    #[verifier::external_body]
    pub fn ones(width: WidthInt) -> (r: BitVecValue)
        requires width >= 1,
        ensures r.w() == width, r.v() == v_ones(width as int),
    { unimplemented!() }

    /// debug builds assert that the value fits; release builds mask it.  The contract demands the fit.
    #[verifier::external_body]
    pub fn from_u64(value: u64, width: WidthInt) -> (r: BitVecValue)
        requires width >= 1, v_fits(width as int, value as int),
        ensures r.w() == width, r.v() == value,
    { unimplemented!() }

    #[verifier::external_body]
    pub fn from_u128(value: u128, width: WidthInt) -> (r: BitVecValue)
        requires width >= 1, v_fits(width as int, value as int),
        ensures r.w() == width, r.v() == value,
    { unimplemented!() }

    #[verifier::external_body]
    pub fn from_bool(value: bool) -> (r: BitVecValue)
        ensures r.w() == 1, r.v() == b2n(value),
    { unimplemented!() }

    /// `impl From<bool> for BitVecValue` and `impl From<BitVecValueRef<'_>> for BitVecValue` (R9 spells `x.into()` as `BitVecValue::from(x)`)
    #[verifier::external_body]
    pub fn from<T: IntoBitVecValue>(value: T) -> (r: BitVecValue)
        ensures r.w() == value.into_w(), r.v() == value.into_v(),
    { unimplemented!() }
}

pub trait IntoBitVecValue: Sized {
    spec fn into_w(&self) -> int;
    spec fn into_v(&self) -> int;
}
impl IntoBitVecValue for bool {
    open spec fn into_w(&self) -> int { 1 }
    open spec fn into_v(&self) -> int { b2n(*self) }
}
impl<'a> IntoBitVecValue for BitVecValueRef<'a> {
    open spec fn into_w(&self) -> int { self.w() }
    open spec fn into_v(&self) -> int { self.v() }
}

// ---------------------------------------------------------------------------------------------------------------
// baa::ArrayValue — ASSUMED: the array operations implement SMT-LIB ArraysEx select / store / constant array / equality
// on the denotation `den()` of the value (Kani cannot run them: sparse arrays are backed by std HashMap).
// ---------------------------------------------------------------------------------------------------------------
#[verifier::external_body]
pub struct ArrayValue { _p: u8 }

impl ArrayValue {
    pub uninterp spec fn den(&self) -> Den;
    pub uninterp spec fn iw(&self) -> int;
    pub uninterp spec fn dw(&self) -> int;

    #[verifier::external_body]
    pub fn select(&self, index: &BitVecValue) -> (r: BitVecValue)
        requires index.w() == self.iw(),
        ensures r.w() == self.dw(), d_lit(r.w(), r.v()) == d_select(self.den(), d_lit(index.w(), index.v())),
    { unimplemented!() }

    #[verifier::external_body]
    pub fn store(&mut self, index: &BitVecValue, data: &BitVecValue)
        requires index.w() == old(self).iw(), data.w() == old(self).dw(),
        ensures final(self).iw() == old(self).iw(), final(self).dw() == old(self).dw(),
                final(self).den() == d_store(old(self).den(), d_lit(index.w(), index.v()), d_lit(data.w(), data.v())),
    { unimplemented!() }

    #[verifier::external_body]
    pub fn new_sparse(index_width: WidthInt, default: &BitVecValue) -> (r: ArrayValue)
        requires index_width >= 1,
        ensures r.iw() == index_width, r.dw() == default.w(), r.den() == d_const_array(index_width as int, d_lit(default.w(), default.v())),
    { unimplemented!() }

    /// None when the two values have different types
    #[verifier::external_body]
    pub fn is_equal(&self, other: &ArrayValue) -> (r: Option<bool>)
        ensures (self.iw() == other.iw() && self.dw() == other.dw()) ==> r is Some && d_lit(1, b2n(r->Some_0)) == d_array_eq(self.den(), other.den()),
    { unimplemented!() }
}
