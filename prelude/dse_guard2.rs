pub trait ToGuard: Value {
    fn to_guard(&self, ec: &Self::Context, gc: &mut GuardCtx) -> (r: GuardResult<Self>)
        ensures final(gc).extends(old(gc)),
                match r {
                    GuardResult::Guard(g) => self.guardable() && final(gc).known(g) && (forall|x: int| #[trigger] final(gc).holds(g, x) == self.holds(x)),
                    _ => !self.guardable(),
                };

    fn true_value(ec: &mut Self::Context) -> (r: Self)
        ensures r.guardable(), forall|x: int| #[trigger] r.holds(x);

    fn false_value(ec: &mut Self::Context) -> (r: Self)
        ensures r.guardable(), forall|x: int| !#[trigger] r.holds(x);
}

/// value of the summary under valuation x, read as a boolean
pub open spec fn sval<V: Value>(gc: &GuardCtx, s: Seq<Entry<V>>, x: int) -> bool {
    s[pick(gc, s, x)].value.holds(x)
}

pub open spec fn all_known<V: Value>(gc: &GuardCtx, s: Seq<Entry<V>>) -> bool {
    forall|k: int| 0 <= k < s.len() ==> gc.known(#[trigger] s[k].guard)
}

pub open spec fn all_guardable<V: Value>(s: Seq<Entry<V>>) -> bool {
    forall|k: int| 0 <= k < s.len() ==> (#[trigger] s[k]).value.guardable()
}
