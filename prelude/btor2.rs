// ======================================================================================
// prelude/btor2.rs — environment of the operator-lowering tables of btor2/parse.rs (engine VA).
// The arms run inside `impl Parser`; the micro-functions receive what an arm reads: the context (`self.ctx` is spelled
// `ctx`, R1'), the already resolved operands, the declared sort `tpe`, the line and its tokens.
// Parser helpers are free functions here; their bodies (error reporting over strings) are not verified.
// ======================================================================================
pub type ParseLineResult<T> = std::result::Result<T, ()>;

/// the number a token spells (uninterpreted: parsing decimal text is not modelled)
pub uninterp spec fn num_of(token: Seq<char>) -> WidthInt;

#[verifier::external_body]
pub fn require_at_least_n_tokens(line: &str, tokens: &[&str], n: usize) -> (r: ParseLineResult<()>)
    ensures r is Ok ==> tokens@.len() >= n,
{ unimplemented!() }

/// Ok(w) is the number the token spells
#[verifier::external_body]
pub fn parse_width_int(line: &str, token: &str, kind: &str) -> (r: ParseLineResult<WidthInt>)
    ensures r is Ok ==> r->Ok_0 == num_of(token@),
{ unimplemented!() }

/// check_expr_type: Ok(e) only if the node type-checks (node-level rule of types.rs) and has exactly the declared sort
#[verifier::external_body]
pub fn check_expr_type(ctx: &Context, expr: ExprRef, line: &str, expected_type: Type) -> (r: ParseLineResult<ExprRef>)
    requires ctx.has(expr),
    ensures match r { Ok(e) => e == expr && ctx.ty(expr) == expected_type, Err(_) => true },
{ unimplemented!() }

#[verifier::external_body]
pub fn check_type(actual: &Type, expected: &Type, line: &str, token: &str, msg: &str) -> (r: ParseLineResult<()>)
    ensures r is Ok ==> *actual == *expected,
{ unimplemented!() }

impl Type {
    //@@CONST-BOOL@@
    #[verifier::external_body]
    pub fn get_bit_vector_width(&self) -> (r: Option<WidthInt>)
        ensures r == bv_of(*self),
    { unimplemented!() }
}

/// ASSUMED (string code of baa): `BitVecValue::from_str_radix(v.to_bit_str(), 2, width)` is the value v, followed by `ctx.bv_lit`
/// (this is `parse_bv_lit_str(line, token, base, width)` applied to the text `write_bv_literal` produces for v)
#[verifier::external_body]
pub fn parse_bit_string(ctx: &mut Context, v: &BitVecValue, base: u32, width: WidthInt) -> (r: ExprRef)
    requires old(ctx).wf(), base == 2, v.w() == width,
    ensures final(ctx).extends(old(ctx)), final(ctx).wf(), final(ctx).has(r), final(ctx).den_sorted(r),
            final(ctx).ty(r) == Type::BV(width), final(ctx).den(r) == d_lit(v.w(), v.v()),
{ unimplemented!() }
