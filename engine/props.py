"""Which engine units decide which property.  Keys are property ids of /verif/properties.jsonl."""
PROPS = {
    "C01": {
        "vx": ["simplify_rules", "context", "driver"],
        "py": ["builder_forward"],
        "ax": True,
        "level": "proof",
    },
    "C04": {
        "vx": ["encoding_filters"],
        "level": "proof",
    },
    "C17": {
        "vx": ["cone"],
        "level": "proof",
    },
    "C05": {
        "vx": ["smt_sorts"],
        "kl": ["smt_ident"],
        "ax": True,
        "level": "proof",
    },
    "C08": {
        "vx": ["btor2_lower"],
        "ax": True,
        "level": "proof",
    },
    "C09": {
        "vx": ["btor2_roundtrip"],
        "level": "proof",
    },
    "C12": {
        "vx": ["context"],
        "py": ["builder_forward"],
        # canonical / stable is carried by add_expr, the literal interning path, the cached constants and the growth lemmas;
        # WHAT each operator builder denotes belongs to the chain of C01 (which runs the whole unit)
        "only": {"context": r"^(add_expr|Context::index|Context::default|get_true|get_false|bv_lit|bit_vec_val|zero|one|ones|zero_extend|sign_extend|slice|BVLitValue::|lemma_|theorem_)"},
        "ax": True,
        "level": "proof",
    },
    "C13": {
        # simplify_rules / driver are built and verified here only so that a change which takes the rules or the traversal OUT of the
        # analysable dialect (e.g. iteration over a std HashSet, whose order differs between instances) makes this check undecided;
        # none of their obligations is counted for C13
        "vx": ["meta", "simplify_rules", "driver"],
        "only": {"simplify_rules": r"^$", "driver": r"^$"},
        "kl": ["meta_fixed_point"],
        "level": "proof",
    },
    "C14": {
        "vx": ["smt_patterns", "smt_reader_errors"],
        "kl": ["smt_lexer"],
        "ax": True,
        "level": "proof",
    },
    "C15": {
        "vx": ["solver_reader"],
        "kl": ["solver_msg"],
        "level": "proof",
    },
    "C20": {
        "vx": ["dse_coalesce", "dse_guard", "traversal", "dse_expr_guard"],
        "kl": ["dse_delete_entries"],
        "level": "proof",
    },
    "C06": {
        "vx": ["eval_arms", "evalloop"],
        "kl": ["baa_kernels"],
        "ax": True,
        "level": "proof",
    },
}
