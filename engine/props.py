"""Which engine units decide which property.  Keys are property ids of /verif/properties.jsonl."""
PROPS = {
    "C01": {
        "vx": ["simplify_rules"],
        "ax": True,
        "level": "proof",
    },
}
