"""Driver: run the engines that decide one property, compare with the lock and the known findings, write evidence."""
from __future__ import annotations
import atexit, json, os, re, shutil, subprocess, sys, tempfile, time, hashlib
from typing import Dict, List, Optional

VERIF = os.path.dirname(os.path.dirname(os.path.abspath(__file__)))
sys.path.insert(0, VERIF)
from engine.props import PROPS  # noqa: E402
from vx.run import build_unit, run_verus  # noqa: E402
from vx.extract import AnchorError  # noqa: E402
from vx.rewrite import RewriteError  # noqa: E402
from vx.lexer import LexError  # noqa: E402

LOCK = os.path.join(VERIF, "obligations.lock.json")
KNOWN = os.path.join(VERIF, "known_findings.json")

SEMANTIC_KEYS = ("postcondition not satisfied", "precondition not satisfied", "assertion failed", "invariant not satisfied",
                 "decreases not satisfied", "arithmetic underflow/overflow", "division by zero", "out of range",
                 "index out of bounds", "cannot show", "bit shift", "recommendation not met", "termination")


class Obligation:
    def __init__(self, oid, engine, unit, name, status, backend, time_s=0.0, detail=None, src=None, kind="proof"):
        self.oid = oid            # e.g. vx:simplify_rules:simplify_bv_not
        self.engine = engine      # VX | VA | KL | AX
        self.unit = unit
        self.name = name
        self.status = status      # discharged | failed | undecided
        self.backend = backend
        self.time_s = time_s
        self.detail = detail or {}
        self.src = src            # "file:line" in /repo
        self.kind = kind          # proof | bounded

    def as_dict(self):
        return {"id": self.oid, "engine": self.engine, "status": self.status, "backend": self.backend,
                "time_s": round(self.time_s, 3), "source": self.src, "kind": self.kind,
                **({"detail": self.detail} if self.detail else {})}


def load_json(path, default):
    try:
        return json.load(open(path))
    except FileNotFoundError:
        return default


def scan_trusted(text: str) -> Dict[str, int]:
    """mechanical scan of a generated Verus file for everything that is assumed rather than proved"""
    return {
        "admit()": len(re.findall(r"\badmit\(\)", text)),
        "assume(": len(re.findall(r"\bassume\(", text)),
        "external_body": len(re.findall(r"verifier::external_body", text)),
        "external (other)": len(re.findall(r"verifier::external\b(?!_body)", text)),
        "assume_specification": len(re.findall(r"\bassume_specification\b", text)),
        "uninterp spec fn": len(re.findall(r"\buninterp\s+spec\s+fn\b", text)),
    }


# ------------------------------------------------------------------------------------------------ VX
def run_vx_unit(unit: str, repo: str, scratch: str, tier: str, log: List[str]):
    """A unit may be assume-guarantee between two parts of the code: when its first run fails in a way the unit module knows
    how to refine (`refine(obligations) -> variant name`), the unit is rebuilt in that variant and the second result stands."""
    obls, info = _run_vx_unit_once(unit, repo, scratch, tier, log, None)
    mod = sys.modules.get(f"units.{unit}")
    if mod is not None and hasattr(mod, "refine"):
        variant = mod.refine(obls)
        if variant:
            obls2, info2 = _run_vx_unit_once(unit, repo, scratch, tier, log, variant)
            info2["first_run"] = {"failed": [o.oid for o in obls if o.status == "failed"], "refined_to_variant": variant}
            return obls2, info2
    return obls, info


def _run_vx_unit_once(unit: str, repo: str, scratch: str, tier: str, log: List[str], variant):
    """returns (obligations, info) ; raises nothing: tool problems become `undecided` obligations"""
    obls: List[Obligation] = []
    info = {"unit": unit, "engine": "VX"}
    try:
        mod, ub = build_unit(unit, repo, variant)
    except (AnchorError, RewriteError, LexError, KeyError, ValueError) as e:
        obls.append(Obligation(f"vx:{unit}:<build>", "VX", unit, "<build>", "undecided", "extractor",
                               detail={"reason": f"{type(e).__name__}: {e}"}))
        info["undecided_reason"] = str(e)
        return obls, info
    path = os.path.join(scratch, f"{unit}.rs")
    text = ub.text()
    open(path, "w").write(text)
    info["generated_file_sha256"] = hashlib.sha256(text.encode()).hexdigest()[:16]
    info["generated_lines"] = text.count("\n")
    info["trusted_scan"] = scan_trusted(text)
    info["assumed_signatures"] = ub.assumed_sigs
    rl = 20 if tier == "quick" else 60
    r = run_verus(path, ub, rlimit=rl, threads=int(os.environ.get("VERIF_THREADS", "12")))
    info.update({"checker_cmd": r.cmd.replace(scratch, "$SCRATCH"), "wall_s": round(r.wall_s, 2), "smt_ms": r.smt_ms,
                 "verus_verified": r.verified, "verus_errors": r.errors})
    verify = [e for e in ub.emitted if e.kind == "verify"]
    canaries = [e for e in ub.emitted if e.kind == "canary"]
    stubs = [e for e in ub.emitted if e.kind == "stub"]
    info["functions_under_contract"] = [f"{e.file}:{e.line} {e.name}" for e in verify]
    info["assumed_contracts"] = [f"{e.file}:{e.line} {e.name}" for e in stubs]
    info["assumed_sha256"] = {f"{e.file}::{e.name}": e.sha256 for e in stubs if e.sha256 and e.file and not e.file.startswith("(")}
    info["verified_sites"] = sorted({f"{e.file}:{e.line}" for e in verify})
    info["verified_keys"] = sorted({f"{e.file}::{e.name.split('__')[0]}" for e in verify if e.file})
    info["stub_sites"] = {f"{e.file}::{e.name}": f"{e.file}:{e.line}" for e in stubs if e.sha256 and e.file and not e.file.startswith("(")}
    info["rewrites_applied"] = {e.name: e.rewrites for e in verify if e.rewrites}
    info["variant_split_functions"] = [e.name for e in ub.emitted if e.kind == "split-summary"]
    info["carved_blocks"] = ub.carved
    info["not_under_contract"] = getattr(ub, "arm_notes", [])
    info["source_sha256"] = {e.name: e.sha256 for e in verify}
    if r.status == "undecided" and not r.fns:
        reason = r.reason or "verus gave no per-function result"
        first = next((d for d in r.diagnostics if d["level"] == "error"), None)
        obls.append(Obligation(f"vx:{unit}:<verus>", "VX", unit, "<verus>", "undecided", "verus",
                               detail={"reason": reason, "first_error": (first or {}).get("rendered", "")[:2000]}))
        info["undecided_reason"] = reason
        return obls, info
    # map verus function results to emitted functions
    def find(name, impl=None):
        tail = name.split("::")[-1]
        cands = [k for k in r.fns if k.split("::")[-1] == tail]
        if impl and len(cands) > 1:
            ty = re.sub(r"^impl(<[^>]*>)?\s+", "", impl).split(" for ")[-1].split("<")[0].strip()
            c2 = [k for k in cands if ty in k]
            cands = c2 or cands
        return r.fns[cands[0]] if len(cands) == 1 else None
    errs_by_fn: Dict[str, list] = {}
    for d in r.diagnostics:
        if d["level"] != "error" or d["message"].startswith("aborting"):
            continue
        owner = None
        # the primary span is the failing call site / clause; secondary spans may point into the callee's contract
        if d["line"] is not None:
            e = ub.fn_at_line(d["line"])
            if e is not None and e.kind in ("verify", "canary"):
                owner = e
        for (ls, le, lab) in ([] if owner else d["lines"]):
            e = ub.fn_at_line(ls)
            if e is not None and e.kind in ("verify", "canary"):
                owner = e
                break
        if owner is None and d["line"] is not None:
            owner = ub.fn_at_line(d["line"])
        errs_by_fn.setdefault(owner.name if owner else "<none>", []).append(d)
    vacuous = []
    for e in canaries:
        fr = find(e.name, e.impl)
        if fr is not None and fr.ok and not errs_by_fn.get(e.name):
            vacuous.append(e.name)
    info["canaries"] = {"generated": len(canaries), "failed_as_required": len(canaries) - len(vacuous), "vacuous": vacuous}
    for e in verify:
        fr = find(e.name, e.impl)
        errs = errs_by_fn.get(e.name, [])
        src = f"{e.file}:{e.line}"
        oid = f"vx:{unit}:{e.name}"
        if errs:
            sem = [d for d in errs if any(k in d["message"] for k in SEMANTIC_KEYS)]
            non = [d for d in errs if d not in sem]
            if sem:
                obls.append(Obligation(oid, "VX", unit, e.name, "failed", "verus/z3", (fr.time_ms / 1000 if fr else 0), src=src,
                                       detail={"errors": [{"message": d["message"], "gen_line": d["line"], "text": d["text"],
                                                           "rendered": d["rendered"][:3000]} for d in sem],
                                               "contract": e.contract}))
            else:
                obls.append(Obligation(oid, "VX", unit, e.name, "undecided", "verus/z3", (fr.time_ms / 1000 if fr else 0), src=src,
                                       detail={"reason": non[0]["message"], "rendered": non[0]["rendered"][:2000]}))
        elif fr is not None and fr.ok:
            obls.append(Obligation(oid, "VX", unit, e.name, "discharged", "verus/z3", fr.time_ms / 1000, src=src,
                                   detail={"rlimit_used": fr.rlimit}))
        elif fr is not None and fr.ok is False:
            obls.append(Obligation(oid, "VX", unit, e.name, "undecided", "verus/z3", fr.time_ms / 1000, src=src,
                                   detail={"reason": "verus reports failure without a located diagnostic"}))
        else:
            # functions whose obligations are trivial produce no SMT query; count them only if verus succeeded overall
            st = "discharged" if r.status == "ok" or (r.verified > 0 and "<none>" not in errs_by_fn) else "undecided"
            obls.append(Obligation(oid, "VX", unit, e.name, st, "verus/z3", 0.0, src=src,
                                   detail={"note": "no SMT query was needed"}))
    # proved lemmas of the lemma files (not admits) are obligations too
    for name, fr in r.fns.items():
        short = name.split("::")[-1]
        if (short.startswith("lemma_") or short.startswith("theorem_")) and not any(o.name == short for o in obls):
            lerrs = [d for d in r.diagnostics if d["level"] == "error" and short in (d.get("rendered") or "")]
            obls.append(Obligation(f"vx:{unit}:{short}", "VX", unit, short, "discharged" if fr.ok else "failed", "verus/z3",
                                   fr.time_ms / 1000, detail={} if fr.ok else {"errors": [{"message": d["message"], "rendered": d["rendered"][:2000]} for d in lerrs]
                                                                                  or [{"message": "lemma failed"}]}))
    if vacuous:
        obls.append(Obligation(f"vx:{unit}:<vacuity>", "VX", unit, "<vacuity>", "undecided", "verus/z3",
                               detail={"reason": "precondition canaries were PROVED (contradictory requires or axioms): " + ", ".join(vacuous)}))
    lemma_names = [o.name for o in obls if o.status == "failed" and (o.name.startswith("lemma_") or o.name.startswith("theorem_"))]
    if "<none>" in errs_by_fn:
        errs_by_fn["<none>"] = [d for d in errs_by_fn["<none>"] if not any(n in (d.get("rendered") or "") for n in lemma_names)]
        if not errs_by_fn["<none>"]:
            del errs_by_fn["<none>"]
    if "<none>" in errs_by_fn:
        d = errs_by_fn["<none>"][0]
        obls.append(Obligation(f"vx:{unit}:<unlocated>", "VX", unit, "<unlocated>", "undecided", "verus",
                               detail={"reason": d["message"], "rendered": d["rendered"][:2000]}))
    return obls, info


# ------------------------------------------------------------------------------------------------ AX
def run_ax(tier: str):
    from ax.gen import audit
    from ax.axioms import AXIOMS
    bound = 6 if tier == "quick" else 9
    obls = []
    try:
        res, dt = audit(bound)
    except Exception as e:  # tool failure
        return [Obligation("ax:<audit>", "AX", "algebra", "<audit>", "undecided", "z3", detail={"reason": repr(e)})], {"error": repr(e)}
    info = {"axioms": len(res), "queries": sum(v["instances"] for v in res.values()), "bound": bound, "time_s": round(dt, 2),
            "refuted": [k for k, v in res.items() if v["sat"]], "unknown": [k for k, v in res.items() if v["unknown"]],
            "never_instantiated": [k for k, v in res.items() if v["instances"] == 0]}
    return obls, info


# ------------------------------------------------------------------------------------------------ main
def main_check(a) -> int:
    t0 = time.time()
    prop = a.prop
    if prop not in PROPS:
        print(f"property {prop} is not claimed (see MANIFEST.json not_applicable)")
        return 2
    cfg = PROPS[prop]
    seed = int(os.environ.get("VERIF_SEED", "0") or 0)
    scratch = tempfile.mkdtemp(prefix="patronus-verif.", dir="/var/tmp")
    if not a.keep:
        atexit.register(lambda: shutil.rmtree(scratch, ignore_errors=True))
    if a.replay:
        return replay(a.replay, a.repo)
    obls: List[Obligation] = []
    infos = []
    for unit in cfg.get("vx", []):
        o, i = run_vx_unit(unit, a.repo, scratch, a.tier, [])
        only = (cfg.get("only") or {}).get(unit)
        if only:
            # this property rests on part of the unit only (the rest belongs to another property's chain)
            dropped = [x.name for x in o if not x.name.startswith("<") and not re.search(only, x.name)]
            o = [x for x in o if x.name.startswith("<") or re.search(only, x.name)]
            i["obligations_counted_for_this_property"] = only
            i["obligations_of_unit_not_counted"] = dropped
        obls += o
        infos.append(i)
    for unit in cfg.get("py", []):
        # units decided by a syntactic proof rule (no verifier run)
        import importlib
        mod = importlib.import_module(f"units.{unit}")
        t1 = time.time()
        o, i = mod.run(a.repo, Obligation)
        i["wall_s"] = round(time.time() - t1, 2)
        obls += o
        infos.append(i)
    ax_info = None
    if cfg.get("ax"):
        o, ax_info = run_ax(a.tier)
        obls += o
    if cfg.get("kl"):
        from engine.kl import run_kl
        o, i = run_kl(prop, cfg["kl"], a.repo, scratch, a.tier)
        obls += o
        infos.append(i)
    wall = time.time() - t0

    lock = load_json(LOCK, {})
    known = load_json(KNOWN, {"findings": [], "fixed": []})
    if a.relock:
        lock[prop] = sorted(o.oid for o in obls if o.status == "discharged" or _is_known(prop, o, known))
        json.dump(lock, open(LOCK, "w"), indent=1, sort_keys=True)
        print(f"relocked {prop}: {len(lock[prop])} obligations")
    carve_lock = lock.setdefault("_carved", {})
    carved_now = {c["stub"]: c["sha256"] for i in infos for c in i.get("carved_blocks", [])}
    if a.relock:
        carve_lock.update(carved_now)
        json.dump(lock, open(LOCK, "w"), indent=1, sort_keys=True)
    # assumed contracts about /repo code are pinned to the text they were written against — unless the same function is verified
    # by another unit of this property (then a change is decided there)
    verified_sites = {x for i in infos for x in i.get("verified_sites", [])}
    vby = lock.setdefault("_verified_by", {})
    if a.relock:
        vby[prop] = sorted({x for i in infos for x in i.get("verified_keys", [])})
    verified_elsewhere = {k for p2, ks in vby.items() if p2 != prop for k in ks}
    assumed_now = {}
    for i in infos:
        for k, sha in (i.get("assumed_sha256") or {}).items():
            # exempt: verified by a unit of this property, or by a registered unit of another property (decided there)
            if i["stub_sites"][k] not in verified_sites and k not in verified_elsewhere:
                assumed_now[k] = sha
    assumed_lock = lock.setdefault("_assumed", {}).setdefault(prop, {})
    if a.relock:
        lock["_assumed"][prop] = dict(assumed_now)
        assumed_lock = lock["_assumed"][prop]
        json.dump(lock, open(LOCK, "w"), indent=1, sort_keys=True)
    for k, sha in assumed_now.items():
        if k in assumed_lock and assumed_lock[k] != sha:
            obls.append(Obligation(f"vx:assumed:{k}", "VX", "assumed", "<assumed>", "undecided", "extractor",
                                   detail={"reason": f"assumed-code-changed: `{k}` is not verified here, its contract is ASSUMED, and its text "
                                                     f"changed (sha256 {sha[:16]}, locked {assumed_lock[k][:16]}): the assumption must be re-examined"}))
    for stub, sha in carved_now.items():
        if carve_lock.get(stub) != sha:
            obls.append(Obligation(f"vx:carved:{stub}", "VX", "carved", "<carved>", "undecided", "extractor",
                                   detail={"reason": f"unverified-code-changed: the carved-out block behind the assumed contract `{stub}` has "
                                                     f"sha256 {sha}, locked {carve_lock.get(stub)}"}))
    locked = set(lock.get(prop, []))
    by_id = {o.oid: o for o in obls}
    missing = sorted(locked - set(by_id))
    failed = [o for o in obls if o.status == "failed"]
    undecided = [o for o in obls if o.status == "undecided"]
    discharged = [o for o in obls if o.status == "discharged"]
    ax_bad = bool(ax_info and (ax_info.get("refuted") or ax_info.get("unknown") or ax_info.get("never_instantiated") or ax_info.get("error")))

    violations, known_hits = [], []
    for o in failed:
        k = _is_known(prop, o, known)
        if k:
            known_hits.append((o, k))
        else:
            violations.append(o)

    os.makedirs(os.path.join(VERIF, "evidence"), exist_ok=True)
    rdir = os.path.join(VERIF, "replay", prop)
    os.makedirs(rdir, exist_ok=True)
    lines = []
    for o in violations:
        rp = os.path.join(rdir, re.sub(r"[^A-Za-z0-9_.-]+", "_", o.oid) + ".json")
        witness = find_witness(prop, o, a.repo, scratch)
        json.dump({"property": prop, "obligation": o.oid, "engine": o.engine, "source": o.src, "status": "failed",
                   "verifier_output": o.detail, "failing_input": witness,
                   "replay_cmd": f"./check {prop} --replay {rp}"}, open(rp, "w"), indent=1)
        tail = "" if witness and witness.get("reproduced") else " no-failing-input-found"
        lines.append(f"VIOLATION property={prop} replay={rp}{tail}")
    for o, k in known_hits:
        lines.append(f"KNOWN-FINDING: property={prop} {k['what']} (obligation {o.oid})")

    # ---------------- evidence
    # bounded stand-ins are reported separately and are never counted as proved
    n_obl = len([o for o in obls if not o.name.startswith("<") and o.kind != "bounded"])
    n_dis = len([o for o in discharged if not o.name.startswith("<") and o.kind != "bounded"])
    n_bobl = len([o for o in obls if o.kind == "bounded"])
    n_bdis = len([o for o in discharged if o.kind == "bounded"])
    trusted = []
    for i in infos:
        for k, v in (i.get("trusted_scan") or {}).items():
            if v:
                trusted.append(f"{i['unit']}: {v} x {k}")
        trusted += [f"{i['unit']}: assumed contract (external_body) for {s}" for s in i.get("assumed_contracts", [])]
        trusted += [f"{i['unit']}: signature declared differently: {s}" for s in i.get("assumed_signatures", [])]
    if ax_info:
        trusted.append(f"bit-vector algebra: {ax_info.get('axioms')} axioms assumed in Verus (admit), audited by z3 for all widths/indices <= "
                       f"{ax_info.get('bound')} ({ax_info.get('queries')} validity queries, all unsat required)")
    samples = [o.as_dict() for o in (failed + undecided)[:4]] + [o.as_dict() for o in discharged[:6]]
    ev = {
        "property_id": prop, "tier": a.tier, "seed": seed, "level": cfg.get("level", "proof"),
        "coverage": {
            "obligations": n_obl, "discharged": n_dis,
            "bounded_checks": n_bobl, "bounded_checks_passed": n_bdis,
            "checker_cmd": "; ".join(i.get("checker_cmd", "") for i in infos if i.get("checker_cmd")) or "n/a",
            "trusted_base": trusted,
            "samples": samples,
            "units": infos,
            "axiom_audit": ax_info,
            "backends": sorted({o.backend for o in obls}),
            "solver_time_s": round(sum(o.time_s for o in obls), 3),
            "failed": [o.oid for o in failed], "undecided": [o.oid for o in undecided],
            "locked_obligations": len(locked), "locked_missing": missing,
            "bounded_units": [o.as_dict() for o in obls if o.kind == "bounded"],
            "exhaustive": False,
        },
        "assumptions": _assumptions(cfg, infos, ax_info),
        "wall_s": round(wall, 2),
        "violations": len(violations),
    }
    json.dump(ev, open(os.path.join(VERIF, "evidence", f"{prop}.json"), "w"), indent=1)

    for l in lines:
        print(l)
    print(f"[{prop}] tier={a.tier} obligations={n_obl} discharged={n_dis} bounded={n_bdis}/{n_bobl} failed={len(failed)} (known {len(known_hits)}) "
          f"undecided={len(undecided)} locked={len(locked)} missing={len(missing)} wall={wall:.1f}s")
    if violations:
        return 1
    if undecided or missing or ax_bad or n_obl == 0:
        for o in undecided:
            print(f"UNDECIDED {o.oid}: {o.detail.get('reason', '')[:300]}")
        if any(o.name in ("<build>", "<verus>") for o in undecided):
            if missing:
                print(f"UNDECIDED {len(missing)} locked obligations were not produced because a unit did not build")
        else:
            for m in missing:
                print(f"UNDECIDED locked obligation {m} was not produced by this run")
        if ax_bad:
            print(f"UNDECIDED axiom audit: {json.dumps({k: ax_info.get(k) for k in ('refuted', 'unknown', 'never_instantiated', 'error')})}")
        return 2
    return 0


def _is_known(prop, o: Obligation, known) -> Optional[dict]:
    for k in known.get("findings", []):
        if k.get("property") == prop and k.get("obligation") == o.oid:
            # a finding is identified by obligation + a substring of the verifier's reason / counterexample
            m = k.get("match")
            blob = json.dumps(o.detail)
            if not m or m in blob:
                return k
    return None


def _assumptions(cfg, infos, ax_info) -> List[str]:
    a = [
        "Rust semantics as modelled by Verus (mathematical int/nat in specs, machine integers with overflow checks in exec code)",
        "extraction: functions are cut from /repo on every run and passed through the closed rewrite list R1..R10 of DESIGN.md §4",
        "prelude contracts of dependencies (baa values, indexmap, hash maps) are assumed; baa kernels are checked by Kani at a finite width set (C06)",
        "termination is proved only where a decreases clause is stated",
    ]
    if ax_info:
        a.append(f"the denotation algebra (Den, d_*, v_*) is axiomatised; each axiom is audited by z3 up to width {ax_info.get('bound')}, not proved for all widths")
    return a


def find_witness(prop, o: Obligation, repo: str, scratch: str):
    """obligation-indexed search for a concrete failing input on the real code; never decides pass/fail"""
    try:
        from engine.witness import search
    except ImportError:
        return None
    try:
        return search(prop, o, repo, scratch)
    except Exception as e:  # the search is best effort
        return {"reproduced": False, "error": repr(e)}


def replay(path: str, repo: str) -> int:
    d = json.load(open(path))
    print(json.dumps({k: d.get(k) for k in ("property", "obligation", "source", "failing_input")}, indent=1))
    w = d.get("failing_input") or {}
    if (w.get("replay") or {}).get("kind") in ("kl_injected", "kl_baa"):
        from engine.witness import replay_recorded
        return replay_recorded(w["replay"], repo)
    if w.get("cmd"):
        p = subprocess.run(w["cmd"], shell=True)
        return p.returncode
    print("no concrete failing input was recorded; re-run the check to re-verify the obligation")
    return 0
