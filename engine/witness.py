"""Failing-input search for a FAILED obligation (never decides pass/fail; a violation is reported either way).

KL obligations: Kani is re-run on the failing harness with concrete playback; the values it prints are then replayed
against the real code under the repository's own toolchain (`cargo test` with `--cfg verif_replay`, where the harness
functions run unchanged with `kani::any()` reading the recorded values — kl/inject/shim.rs).  A replay that panics
with the harness' assertion message is a failing input reproduced on the real code.
"""
from __future__ import annotations
import os, re, shutil, subprocess, time

VERIF = os.path.dirname(os.path.dirname(os.path.abspath(__file__)))
REPLAY_TARGET = os.environ.get("VERIF_REPLAY_TARGET", "/var/tmp/patronus-verif-replay-target")


def parse_playback(out: str):
    """all concrete playback tests printed by `--concrete-playback=print` -> [(byte lists, comments, check class, check text)],
    failed assertions first (cover properties also get a test: those are satisfying inputs, not counterexamples)"""
    res = []
    for block in re.findall(r"```\n(.*?)```", out, re.S):
        vals, notes = [], []
        for c, v in re.findall(r"//\s*(.*?)\n\s*vec!\[([0-9, ]*)\],", block):
            notes.append(c.strip())
            vals.append([int(x) for x in v.split(",") if x.strip()])
        chk = re.search(r"Check for `(\w+)`: \"+(.*?)\"+\n", block)
        res.append((vals, notes, chk.group(1) if chk else None, chk.group(2) if chk else None))
    # inputs printed for cover properties come last: they are candidates only (Kani sometimes prints the values of a failing trace
    # under the cover property it also satisfies); a candidate counts only if it fails when replayed on the real code
    res.sort(key=lambda r: 0 if r[2] == "assertion" else (2 if r[2] == "cover" else 1))
    return res


def kani_playback(tree_crate: str, harness: str, timeout_s: int = 900, mem_kb: int = 12000000):
    tgt = os.environ.get("VERIF_KANI_TARGET", "/var/tmp/patronus-verif-kani-target")
    env = dict(os.environ, CARGO_NET_OFFLINE="true", CARGO_TARGET_DIR=tgt)
    cmd = ["cargo", "kani", "--harness", harness, "-Z", "concrete-playback", "--concrete-playback=print", "--output-format", "terse"]
    p = subprocess.run(["bash", "-c", f"ulimit -v {mem_kb}; exec " + " ".join(cmd)], cwd=tree_crate, capture_output=True, text=True,
                       timeout=timeout_s, env=env)
    return parse_playback(p.stdout + "\n" + p.stderr), (p.stdout + p.stderr)[-1500:]


def replay_cmd(tree: str, package: str, harness: str, values) -> str:
    vals = ";".join(",".join(str(b) for b in v) for v in values)
    return (f"cd {tree} && CARGO_NET_OFFLINE=true CARGO_TARGET_DIR={REPLAY_TARGET} RUSTFLAGS='--cfg verif_replay' "
            f"VERIF_REPLAY_HARNESS={harness} VERIF_REPLAY_VALUES='{vals}' "
            f"cargo test --offline -q -p {package} --lib verif_replay_entry -- --nocapture")


def run_replay(tree: str, package: str, harness: str, values, timeout_s: int = 1500):
    cmd = replay_cmd(tree, package, harness, values)
    p = subprocess.run(["bash", "-c", cmd], capture_output=True, text=True, timeout=timeout_s)
    err = p.stderr
    if "\nthread '" in err:
        err = err[err.index("\nthread '"):]
    elif "warning: unexpected `cfg`" in err and "error" not in err:
        err = ""
    out = p.stdout + "\n" + err
    if "running 1 test" in out:
        out = out[out.index("running 1 test"):]
    out = re.sub(r"stack backtrace:.*?(?=note: Some details|\Z)", "", out, flags=re.S)
    panicked = re.search(r"panicked at .*?:\n(.*)", out)
    invalid = "verif_replay: the recorded values violate" in out or "verif_replay: unknown harness" in out
    built = out.startswith("running 1 test")
    return {"exit": p.returncode, "built": built, "reproduced": bool(built and p.returncode != 0 and panicked and not invalid),
            "panic": panicked.group(1).strip() if panicked else None, "output_tail": out[-1200:]}


def make_replay_tree(repo: str, dest: str, file_rel: str, inject_rel: str) -> str:
    """fresh copy of /repo's working tree with the harness module (and the replay shim) appended to one file"""
    if os.path.isdir(dest):
        shutil.rmtree(dest)
    subprocess.run(["rsync", "-a", "--exclude", "target", "--exclude", ".git", repo.rstrip("/") + "/", dest + "/"], check=True)
    from engine.kl import inject_text
    with open(os.path.join(dest, file_rel), "a", encoding="utf-8") as f:
        f.write(inject_text(inject_rel))
    return dest


def search_baa(prop, o, repo: str, scratch: str):
    from engine import kl
    crate = os.path.join(scratch, "baa_kernels")
    if not os.path.isdir(crate) or kl.LAST_BAA_GEN is None:
        return None
    t0 = time.time()
    pb, tail = kani_playback(crate, o.name, timeout_s=3000, mem_kb=30000000)
    if not pb:
        return {"reproduced": False, "reason": "Kani printed no concrete playback values for a failed check", "kani_tail": tail}
    rc = kl.make_baa_replay_crate(os.path.join(scratch, "baa_replay"), repo, kl.LAST_BAA_GEN, o.name)
    w = None
    for values, notes, cls, chk in pb[:3]:
        r = run_replay(rc, "baa_kernels", o.name, values)
        w = {"reproduced": r["reproduced"], "harness": o.name, "kani_values": values, "kani_value_notes": notes, "kani_check": chk,
             "replay_panic": r["panic"], "replay_output": r["output_tail"], "search_s": round(time.time() - t0, 1),
             "how": "Kani concrete playback values fed to the same kernel harness running against the real baa build under `cargo test --cfg verif_replay`",
             "replay": {"kind": "kl_baa", "harness": o.name, "values": values, "gen": kl.LAST_BAA_GEN}}
        if r["reproduced"]:
            break
    return w


def search(prop, o, repo: str, scratch: str):
    from engine import kl
    if o.engine == "KL" and o.unit == "baa_kernels":
        return search_baa(prop, o, repo, scratch)
    if o.engine != "KL" or o.unit not in kl.INJECTED:
        return None
    crate_rel, file_rel, inject_rel, _, _ = kl.INJECTED[o.unit]
    tree = os.path.join(scratch, "tree")
    t0 = time.time()
    pb, tail = kani_playback(os.path.join(tree, crate_rel), o.name)
    if not pb:
        return {"reproduced": False, "reason": "Kani printed no concrete playback values for a failed check", "kani_tail": tail}
    package = crate_rel
    w = None
    for values, notes, cls, chk in pb[:6]:
        r = run_replay(tree, package, o.name, values)
        w = {"reproduced": r["reproduced"], "harness": o.name, "kani_values": values, "kani_value_notes": notes, "kani_check": chk,
             "replay_panic": r["panic"], "replay_output": r["output_tail"], "search_s": round(time.time() - t0, 1),
             "how": "Kani concrete playback values fed to the same harness function running on the real code under `cargo test --cfg verif_replay`",
             "replay": {"kind": "kl_injected", "unit": o.unit, "harness": o.name, "values": values, "package": package}}
        if r["reproduced"]:
            break
    return w


def replay_recorded(rec: dict, repo: str) -> int:
    """./check <ID> --replay FILE for a KL witness: rebuild the harness on /repo's CURRENT tree and feed the recorded values"""
    from engine import kl
    import tempfile
    if rec.get("kind") == "kl_baa":
        d = tempfile.mkdtemp(prefix="patronus-verif-replay.", dir="/var/tmp")
        try:
            gen = dict(rec["gen"])
            gen["usage"] = {k: list(v) for k, v in kl.eval_arm_usage(repo).items()}   # the arm bodies of the CURRENT tree
            rc = kl.make_baa_replay_crate(os.path.join(d, "baa_replay"), repo, gen, rec["harness"])
            r = run_replay(rc, "baa_kernels", rec["harness"], rec["values"])
            print(r["output_tail"])
            if not r["built"]:
                print("replay did not build/run")
                return 2
            print("REPRODUCED: " + str(r["panic"]) if r["reproduced"] else "not reproduced on the current tree")
            return 1 if r["reproduced"] else 0
        finally:
            shutil.rmtree(d, ignore_errors=True)
    crate_rel, file_rel, inject_rel, _, _ = kl.INJECTED[rec["unit"]]
    d = tempfile.mkdtemp(prefix="patronus-verif-replay.", dir="/var/tmp")
    try:
        tree = make_replay_tree(repo, os.path.join(d, "tree"), file_rel, inject_rel)
        r = run_replay(tree, rec["package"], rec["harness"], rec["values"])
        print(r["output_tail"])
        if not r["built"]:
            print("replay did not build/run")
            return 2
        print("REPRODUCED: " + str(r["panic"]) if r["reproduced"] else "not reproduced on the current tree")
        return 1 if r["reproduced"] else 0
    finally:
        shutil.rmtree(d, ignore_errors=True)
