"""Engine KL: Kani on Context-free leaf code.  Harness crates are generated into the scratch directory on every run
(dependency versions come from /repo/Cargo.lock; in-crate harnesses are appended to scratch copies of /repo files)."""
from __future__ import annotations
import json, os, re, shutil, subprocess, sys, time
from typing import Dict, List, Optional, Tuple

VERIF = os.path.dirname(os.path.dirname(os.path.abspath(__file__)))


def parse_terse(out: str) -> Dict[str, dict]:
    """per-harness results from `cargo kani -j N --output-format terse`"""
    res: Dict[str, dict] = {}
    cur_of_thread: Dict[str, str] = {}
    block_thread = None
    for line in out.splitlines():
        m = re.match(r"Thread (\d+): Checking harness (\S+?)\.\.\.", line)
        if m:
            cur_of_thread[m.group(1)] = m.group(2)
            res.setdefault(m.group(2), {"status": None, "time_s": None, "failed_checks": [], "cover": None, "raw": []})
            block_thread = None
            continue
        m = re.match(r"Thread (\d+):\s*$", line)
        if m:
            block_thread = m.group(1)
            continue
        m = re.match(r"Checking harness (\S+?)\.\.\.", line)   # sequential mode
        if m:
            cur_of_thread["0"] = m.group(1)
            res.setdefault(m.group(1), {"status": None, "time_s": None, "failed_checks": [], "cover": None, "raw": []})
            block_thread = "0"
            continue
        if block_thread is None or block_thread not in cur_of_thread:
            continue
        h = res[cur_of_thread[block_thread]]
        h["raw"].append(line)
        if line.startswith("VERIFICATION:-"):
            h["status"] = "SUCCESSFUL" if "SUCCESSFUL" in line else "FAILED"
            if h.get("tool_failure"):
                h["status"] = "TOOL"
            elif h["status"] == "FAILED" and not h["failed_checks"]:
                # a failure without a failed check is the back end giving up (memory, time), not a refuted assertion
                h["status"] = "TOOL"
        m = re.match(r"Verification Time: ([0-9.]+)s", line)
        if m:
            h["time_s"] = float(m.group(1))
        if line.startswith("Failed Checks:"):
            h["failed_checks"].append(line[len("Failed Checks:"):].strip())
        m = re.match(r"\s*\*\* (\d+) of (\d+) cover properties satisfied", line)
        if m:
            h["cover"] = (int(m.group(1)), int(m.group(2)))
        if "out of memory" in line or "CBMC failed" in line or "timed out" in line.lower():
            h["tool_failure"] = True
    return res


def run_kani(crate_dir: str, harness_filters: Optional[List[str]], jobs: int, timeout_s: int, mem_kb: int = 9000000,
             extra: Optional[List[str]] = None) -> Tuple[Dict[str, dict], str, float]:
    cmd = ["cargo", "kani", "-j", str(jobs), "--output-format", "terse"] + (extra or [])
    for h in harness_filters or []:
        cmd += ["--harness", h]
    env = dict(os.environ, CARGO_NET_OFFLINE="true")
    t0 = time.time()
    sh = f"ulimit -v {mem_kb}; exec " + " ".join(cmd)
    try:
        p = subprocess.run(["bash", "-c", sh], cwd=crate_dir, capture_output=True, text=True, timeout=timeout_s, env=env)
        out = p.stdout + "\n" + p.stderr
    except subprocess.TimeoutExpired as e:
        out = (e.stdout.decode() if isinstance(e.stdout, bytes) else (e.stdout or "")) + "\n[driver] cargo kani timed out"
        subprocess.run(["pkill", "-f", "cbmc --no-malloc"], capture_output=True)
    return parse_terse(out), out, time.time() - t0


LAST_BAA_GEN = None


def make_baa_replay_crate(dest: str, repo: str, gen_args: dict, harness: str) -> str:
    """a crate that contains ONE kernel harness (and the replay shim), for `cargo test --cfg verif_replay` under the repo toolchain"""
    sys.path.insert(0, os.path.join(VERIF, "kl"))
    import gen_baa
    shutil.copytree(os.path.join(VERIF, "kl", "baa_kernels"), dest, dirs_exist_ok=True)
    shutil.copy(os.path.join(repo, "Cargo.lock"), os.path.join(dest, "Cargo.lock"))
    usage = {k: (v[0], v[1]) for k, v in (gen_args.get("usage") or {}).items()}
    text, names = gen_baa.gen(gen_args["widths"], gen_args.get("cheap", []), gen_args.get("max_total", 128), usage, only_names={harness})
    open(os.path.join(dest, "src", "lib.rs"), "w").write(text)
    return dest


# ------------------------------------------------------------------------------------------------ baa kernels
QUICK_WIDTHS = [1, 8, 64]
QUICK_CHEAP = [65, 128]          # comparisons, bitwise ops and value tests only (the multi-word code paths)
THOROUGH_WIDTHS = [1, 2, 7, 8, 31, 32, 33, 63, 64, 65, 128]


def run_baa_kernels(repo: str, scratch: str, tier: str, only: Optional[List[str]] = None, widths: Optional[List[int]] = None):
    from engine.driver import Obligation
    sys.path.insert(0, os.path.join(VERIF, "kl"))
    import gen_baa
    crate = os.path.join(scratch, "baa_kernels")
    shutil.copytree(os.path.join(VERIF, "kl", "baa_kernels"), crate, dirs_exist_ok=True)
    shutil.copy(os.path.join(repo, "Cargo.lock"), os.path.join(crate, "Cargo.lock"))
    widths = widths or (QUICK_WIDTHS if tier == "quick" else THOROUGH_WIDTHS)
    cheap = QUICK_CHEAP if (tier == "quick" and widths == QUICK_WIDTHS) else []
    usage = eval_arm_usage(repo)
    text, names = gen_baa.gen(widths, cheap, 64 if tier == "quick" else 128, usage)
    # only the baa operations that patronus actually calls are obligations of patronus (C06: "every operator used by an arm")
    used, unused = used_baa_ops(repo)
    def op_of(n):
        m = re.match(r"k_(.+?)_w\d+", n)
        return m.group(1) if m else n
    skipped = sorted({op_of(n) for n in names if op_of(n) in unused})
    names = [n for n in names if op_of(n) not in unused]
    if only is None and skipped:
        only = None
    harness_filter = only
    open(os.path.join(crate, "src", "lib.rs"), "w").write(text)
    # share compiled dependencies between runs
    tgt = os.environ.get("VERIF_KANI_TARGET", "/var/tmp/patronus-verif-kani-target")
    os.makedirs(tgt, exist_ok=True)
    os.environ["CARGO_TARGET_DIR"] = tgt
    if skipped:
        # drop the harnesses of unused operations from the generated crate (exact-name filters would be too many)
        for op in skipped:
            text = re.sub(r"    #\[cfg_attr\(kani, kani::proof\)\]\n    #\[cfg_attr\(kani, kani::unwind\(4\)\)\]\n    fn k_" + re.escape(op) + r"_w\d+\(\) \{\n.*?\n    \}\n", "", text, flags=re.S)
        open(os.path.join(crate, "src", "lib.rs"), "w").write(text)
    # multi-word concat / shift / extension harnesses need minutes and >10 GB each: they run in a pass of their own, three at a time
    def heavy(n):
        m = re.match(r"k_(concat)_w(\d+)_w(\d+)$", n) or re.match(r"k_(zero_extend|sign_extend)_w(\d+)_by(\d+)$", n)
        if m:
            return int(m.group(2)) + int(m.group(3)) > 64
        m = re.match(r"k_(shift_left|shift_right|arithmetic_shift_right)_w(\d+)$", n)
        return bool(m) and int(m.group(2)) > 64
    def short(k):
        return k.split("::")[-1]
    sel = [n for n in names if not only or any(f in n for f in only)]
    light = [n for n in sel if not heavy(n)]
    heavies = [n for n in sel if heavy(n)]
    jobs = int(os.environ.get("VERIF_KANI_JOBS", "10" if tier == "quick" else "8"))
    res, raw, dt = {}, "", 0.0
    passes = []
    lib = os.path.join(crate, "src", "lib.rs")
    full_text = open(lib).read()
    def only_harnesses(keep):
        """lib.rs with the harness functions not in `keep` removed"""
        keep = set(keep)
        def repl(m):
            return m.group(0) if m.group(1) in keep else ""
        return re.sub(r"    #\[cfg_attr\(kani, kani::proof\)\]\n    #\[cfg_attr\(kani, kani::unwind\(4\)\)\]\n    fn (k_\w+)\(\) \{\n.*?\n    \}\n", repl, full_text, flags=re.S)
    if light:
        open(lib, "w").write(only_harnesses(light))
        r1, raw1, dt1 = run_kani(crate, None, jobs=jobs, timeout_s=1500 if tier == "quick" else 7000)
        res.update({k: v for k, v in r1.items() if short(k) in light}); raw += raw1; dt += dt1
        passes.append({"pass": "light", "harnesses": len(light), "jobs": jobs, "wall_s": round(dt1, 1)})
    if heavies:
        open(lib, "w").write(only_harnesses(heavies))
        r2, raw2, dt2 = run_kani(crate, None, jobs=3, timeout_s=14000, mem_kb=19000000)
        res.update({k: v for k, v in r2.items() if short(k) in heavies}); raw += raw2; dt += dt2
        passes.append({"pass": "heavy", "harnesses": len(heavies), "jobs": 3, "wall_s": round(dt2, 1)})
    open(lib, "w").write(full_text)
    # last pass: harnesses the back end gave up on (memory / time under parallel load), two at a time with a large budget
    got = {short(k): v for k, v in res.items()}
    again = [n for n in sel if got.get(n) is None or got[n]["status"] in (None, "TOOL")]
    second_pass = []
    if again and len(again) <= 24:
        res2, raw2, dt2 = run_kani(crate, again, jobs=2, timeout_s=3000 if tier == "quick" else 9000, mem_kb=28000000)
        dt += dt2
        for k, v in res2.items():
            if short(k) in again and v["status"] not in (None, "TOOL"):
                res[k] = v
                second_pass.append(short(k))
        passes.append({"pass": "retry", "harnesses": len(again), "jobs": 2, "wall_s": round(dt2, 1)})
    obls = []
    for n in names:
        if only and not any(f in n for f in only):
            continue
        r = res.get("harness::" + n) or res.get(n)
        kind = "bounded" if "BOUNDED" in n else "proof"
        oid = f"kl:baa:{n}"
        if r is None or r["status"] is None or r["status"] == "TOOL":
            obls.append(Obligation(oid, "KL", "baa_kernels", n, "undecided", "kani/cbmc+cadical", (r or {}).get("time_s") or 0.0,
                                   detail={"reason": "no result (timeout / out of memory / tool failure)", "raw": "\n".join((r or {}).get("raw", [])[-8:])}, kind=kind))
        elif r["status"] == "SUCCESSFUL":
            cov = r.get("cover")
            if cov and cov[0] < cov[1]:
                obls.append(Obligation(oid, "KL", "baa_kernels", n, "undecided", "kani/cbmc+cadical", r["time_s"] or 0.0,
                                       detail={"reason": f"vacuity: only {cov[0]} of {cov[1]} cover properties satisfied"}, kind=kind))
            else:
                obls.append(Obligation(oid, "KL", "baa_kernels", n, "discharged", "kani/cbmc+cadical", r["time_s"] or 0.0,
                                       detail={"cover": cov}, kind=kind, src="baa (dependency pinned by /repo/Cargo.lock)"))
        else:
            fc = r["failed_checks"]
            if any("unwinding assertion" in x for x in fc) and not any("assertion failed" in x for x in fc):
                obls.append(Obligation(oid, "KL", "baa_kernels", n, "undecided", "kani/cbmc+cadical", r["time_s"] or 0.0,
                                       detail={"reason": "unwinding bound too small", "failed_checks": fc}, kind=kind))
            else:
                obls.append(Obligation(oid, "KL", "baa_kernels", n, "failed", "kani/cbmc+cadical", r["time_s"] or 0.0,
                                       detail={"errors": [{"message": x} for x in fc] or [{"message": "Kani: VERIFICATION FAILED"}]}, kind=kind,
                                       src="baa (dependency pinned by /repo/Cargo.lock)"))
    global LAST_BAA_GEN
    LAST_BAA_GEN = {"widths": list(widths), "cheap": list(cheap), "max_total": 64 if tier == "quick" else 128, "usage": {k: list(v) for k, v in usage.items()}}
    info = {"unit": "baa_kernels", "engine": "KL", "second_pass": second_pass, "passes": passes, "arm_bodies_used": {k: v[1] for k, v in usage.items()}, "widths": widths, "cheap_only_widths": cheap, "baa_ops_not_called_by_patronus": skipped, "harnesses": len(names), "wall_s": round(dt, 1),
            "checker_cmd": f"cargo kani -j N --output-format terse   (crate generated by kl/gen_baa.py, widths {widths})",
            "bound": f"complete over all operand values at each width in {widths}; mul above 16 bits only against 8 stated second operands (bounded)"}
    return obls, info, crate


def eval_arm_usage(repo: str):
    """{baa op: (closure params, closure body)} for the evaluator arms of eval.rs whose closure is not the bare baa call"""
    sys.path.insert(0, VERIF)
    from vx.extract import Source, find_match, match_arms
    from vx.arms import closure_call
    src = Source(os.path.join(repo, "patronus/src/expr/eval.rs"), "patronus/src/expr/eval.rs") if False else None
    text = open(os.path.join(repo, "patronus/src/expr/eval.rs"), encoding="utf-8").read()
    i = text.find("fn eval_expr_internal")
    if i < 0:
        return {}
    body = text[i:]
    try:
        arms = match_arms(body, find_match(body, 0, "expr"))
    except Exception:
        return {}
    usage = {}
    arm_op = {"BVAnd": "and", "BVOr": "or", "BVXor": "xor", "BVAdd": "add", "BVSub": "sub", "BVMul": "mul", "BVShiftLeft": "shift_left",
              "BVShiftRight": "shift_right", "BVArithmeticShiftRight": "arithmetic_shift_right", "BVNot": "not", "BVNegate": "negate"}
    for a in arms:
        m = re.search(r"Expr::([A-Za-z]+)", a.pat)
        op = arm_op.get(m.group(1)) if m else None
        if not op or "|" in a.pat:
            continue
        for helper in ("un_op", "bin_op"):
            cc = closure_call(a.body, helper)
            if not cc:
                continue
            params, expr = cc
            expr = re.sub(r"//[^\n]*", "", expr)
            norm = re.sub(r"\s+", "", expr)
            plain = f"{params[0]}.{op}(&{params[1]})" if len(params) == 2 else f"{params[0]}.{op}()"
            if norm != plain:
                usage[op] = (params, re.sub(r"\s+", " ", expr).strip())
    return usage


_BAA_OPS = ["and", "or", "xor", "add", "sub", "mul", "shift_left", "shift_right", "arithmetic_shift_right", "not", "negate",
            "is_equal", "is_greater", "is_greater_or_equal", "is_greater_signed", "is_greater_or_equal_signed",
            "zero_extend", "sign_extend", "concat", "slice"]


def used_baa_ops(repo: str):
    """baa value operations that occur as method calls in the patronus sources (excluding tests)"""
    text = ""
    for root in ("patronus/src", "patronus-dse/src"):
        for dp, dn, fn in os.walk(os.path.join(repo, root)):
            for f in fn:
                if f.endswith(".rs"):
                    text += open(os.path.join(dp, f), encoding="utf-8").read()
    used = {op for op in _BAA_OPS if re.search(r"\." + op + r"\(", text)}
    return used, set(_BAA_OPS) - used


# ------------------------------------------------------------------------------------------------ in-crate harnesses
INJECTED = {
    # unit -> (crate dir, file that receives the #[cfg(kani)] module, inject file, {tier: [harness names]}, bound text)
    "dse_delete_entries": ("patronus-dse", "patronus-dse/src/value_summary.rs", "kl/inject/value_summary.rs",
                           {"quick": ["delete_entries_n0", "delete_entries_n1", "delete_entries_n2", "delete_entries_n3"],
                            "thorough": ["delete_entries_n0", "delete_entries_n1", "delete_entries_n2", "delete_entries_n3", "delete_entries_n4"]},
                           "entries.len() <= 3 (quick) / <= 4 (thorough; n = 5 exhausts the memory budget of the back end); contents and the ascending delete list are symbolic"),
    "smt_lexer": ("patronus", "patronus/src/smt/parser.rs", "kl/inject/smt_lexer.rs",
                  {"quick": ["lexer_total_n1", "lexer_total_n2", "lexer_total_n3"],
                   "thorough": ["lexer_total_n1", "lexer_total_n2", "lexer_total_n3", "lexer_total_n4", "lexer_total_n5"]},
                  "input text of <= 3 (quick) / <= 5 (thorough) bytes, every byte value"),
    "smt_ident": ("patronus", "patronus/src/smt/serialize.rs", "kl/inject/smt_ident.rs",
                  {"quick": ["simple_symbol_n0", "simple_symbol_n1", "simple_symbol_n2"],
                   "thorough": ["simple_symbol_n0", "simple_symbol_n1", "simple_symbol_n2"]},
                  "names of <= 2 characters, every Unicode scalar value (3 characters exhaust the back end)"),
    "meta_fixed_point": ("patronus", "patronus/src/expr/meta.rs", "kl/inject/meta.rs",
                         {"quick": ["get_fixed_point_n2", "get_fixed_point_n4", "get_fixed_point_n6"],
                          "thorough": ["get_fixed_point_n2", "get_fixed_point_n4", "get_fixed_point_n6", "get_fixed_point_n8"]},
                         "maps with <= 6 (quick) / <= 8 (thorough) keys; every acyclic map up to renaming, every key"),
}


def inject_text(inject_rel: str) -> str:
    """harness module with the replay shim (kl/inject/shim.rs) spliced in"""
    t = open(os.path.join(VERIF, inject_rel), encoding="utf-8").read()
    return "\n" + t.replace("    //@@SHIM@@\n", open(os.path.join(VERIF, "kl/inject/shim.rs"), encoding="utf-8").read())


def scratch_tree(repo: str, scratch: str) -> str:
    tree = os.path.join(scratch, "tree")
    if not os.path.isdir(tree):
        subprocess.run(["rsync", "-a", "--exclude", "target", "--exclude", ".git", repo.rstrip("/") + "/", tree + "/"], check=True)
    return tree


def run_injected(unit: str, repo: str, scratch: str, tier: str):
    from engine.driver import Obligation
    crate_rel, file_rel, inject_rel, harnesses, bound = INJECTED[unit]
    tree = scratch_tree(repo, scratch)
    target = os.path.join(tree, file_rel)
    marker = "// injected by /verif (engine KL)"
    text = open(target, encoding="utf-8").read()
    if marker not in text:
        open(target, "a", encoding="utf-8").write(inject_text(inject_rel))
    names = harnesses[tier]
    tgt = os.environ.get("VERIF_KANI_TARGET", "/var/tmp/patronus-verif-kani-target")
    os.makedirs(tgt, exist_ok=True)
    os.environ["CARGO_TARGET_DIR"] = tgt
    res, raw, dt = run_kani(os.path.join(tree, crate_rel), names, jobs=min(len(names), int(os.environ.get("VERIF_KANI_JOBS", "10"))),
                            timeout_s=900 if tier == "quick" else 3600, extra=["--exact"] if False else None)
    obls = []
    for n in names:
        key = next((k for k in res if k.endswith("::" + n) or k == n), None)
        r = res.get(key) if key else None
        oid = f"kl:{unit}:{n}"
        kind = "bounded"
        if r is None or r["status"] in (None, "TOOL"):
            obls.append(Obligation(oid, "KL", unit, n, "undecided", "kani/cbmc+cadical", (r or {}).get("time_s") or 0.0,
                                   detail={"reason": "no result (timeout / out of memory / build failure)", "raw": raw[-1500:] if r is None else "\n".join(r["raw"][-8:])}, kind=kind))
        elif r["status"] == "SUCCESSFUL":
            cov = r.get("cover")
            if cov and cov[0] < cov[1]:
                obls.append(Obligation(oid, "KL", unit, n, "undecided", "kani/cbmc+cadical", r["time_s"] or 0.0,
                                       detail={"reason": f"vacuity: only {cov[0]} of {cov[1]} cover properties satisfied"}, kind=kind))
            else:
                obls.append(Obligation(oid, "KL", unit, n, "discharged", "kani/cbmc+cadical", r["time_s"] or 0.0, detail={"cover": cov}, kind=kind, src=file_rel))
        else:
            fc = r["failed_checks"]
            if any("unwinding assertion" in x for x in fc) and not any("assertion failed" in x for x in fc):
                obls.append(Obligation(oid, "KL", unit, n, "undecided", "kani/cbmc+cadical", r["time_s"] or 0.0,
                                       detail={"reason": "unwinding bound too small", "failed_checks": fc}, kind=kind))
            else:
                obls.append(Obligation(oid, "KL", unit, n, "failed", "kani/cbmc+cadical", r["time_s"] or 0.0,
                                       detail={"errors": [{"message": x} for x in fc] or [{"message": "Kani: VERIFICATION FAILED"}]}, kind=kind, src=file_rel))
    info = {"unit": unit, "engine": "KL", "harnesses": len(names), "wall_s": round(dt, 1), "bound": bound,
            "checker_cmd": f"cargo kani -j N --output-format terse --harness <{', '.join(names)}>   (in a scratch copy of /repo with {inject_rel} appended to {file_rel})",
            "injected_code": inject_rel}
    return obls, info


def run_solver_msg(repo: str, scratch: str, tier: str):
    from engine.driver import Obligation
    from vx.extract import AnchorError
    sys.path.insert(0, os.path.join(VERIF, "kl"))
    import gen_solver_msg
    crate = os.path.join(scratch, "solver_msg")
    shutil.copytree(os.path.join(VERIF, "kl", "solver_msg"), crate, dirs_exist_ok=True)
    n = 8 if tier == "quick" else 16
    unit = "solver_msg"
    try:
        text, names = gen_solver_msg.gen(repo, n)
    except (AnchorError, Exception) as e:
        return [Obligation(f"kl:{unit}:<build>", "KL", unit, "<build>", "undecided", "extractor", detail={"reason": f"{type(e).__name__}: {e}"})], \
               {"unit": unit, "engine": "KL", "checker_cmd": "n/a", "wall_s": 0}
    os.makedirs(os.path.join(crate, "src"), exist_ok=True)
    open(os.path.join(crate, "src", "lib.rs"), "w").write(text)
    tgt = os.environ.get("VERIF_KANI_TARGET", "/var/tmp/patronus-verif-kani-target")
    os.makedirs(tgt, exist_ok=True)
    os.environ["CARGO_TARGET_DIR"] = tgt
    res, raw, dt = run_kani(crate, None, jobs=min(len(names), int(os.environ.get("VERIF_KANI_JOBS", "10"))), timeout_s=1200 if tier == "quick" else 7200)
    obls = []
    for nm in names:
        key = next((k for k in res if k.endswith("::" + nm) or k == nm), None)
        r = res.get(key) if key else None
        oid = f"kl:{unit}:{nm}"
        if r is None or r["status"] in (None, "TOOL"):
            obls.append(Obligation(oid, "KL", unit, nm, "undecided", "kani/cbmc+cadical", (r or {}).get("time_s") or 0.0,
                                   detail={"reason": "no result (timeout / out of memory / build failure)", "raw": raw[-1500:] if r is None else "\n".join(r["raw"][-8:])}, kind="bounded"))
        elif r["status"] == "SUCCESSFUL":
            obls.append(Obligation(oid, "KL", unit, nm, "discharged", "kani/cbmc+cadical", r["time_s"] or 0.0, kind="bounded", src="patronus/src/smt/solver.rs (read_response, error branch)"))
        else:
            fc = r["failed_checks"]
            if fc and all("unwinding assertion" in x for x in fc):
                obls.append(Obligation(oid, "KL", unit, nm, "undecided", "kani/cbmc+cadical", r["time_s"] or 0.0, detail={"reason": "unwinding bound too small", "failed_checks": fc}, kind="bounded"))
            else:
                obls.append(Obligation(oid, "KL", unit, nm, "failed", "kani/cbmc+cadical", r["time_s"] or 0.0,
                                       detail={"errors": [{"message": x} for x in fc] or [{"message": "Kani: VERIFICATION FAILED"}]}, kind="bounded",
                                       src="patronus/src/smt/solver.rs (read_response, error branch)"))
    info = {"unit": unit, "engine": "KL", "harnesses": len(names), "wall_s": round(dt, 1),
            "bound": f"message length <= {n} bytes, printable ASCII, no leading/trailing blank; contents symbolic",
            "checker_cmd": "cargo kani -j N --output-format terse   (crate generated by kl/gen_solver_msg.py from the text of read_response)"}
    return obls, info


def run_kl(prop: str, units: List[str], repo: str, scratch: str, tier: str):
    obls, infos = [], []
    for u in units:
        if u == "solver_msg":
            o, i = run_solver_msg(repo, scratch, tier)
            obls += o
            infos.append(i)
        elif u == "baa_kernels":
            o, i, _ = run_baa_kernels(repo, scratch, tier)
            obls += o
            infos.append(i)
        elif u in INJECTED:
            o, i = run_injected(u, repo, scratch, tier)
            obls += o
            infos.append(i)
        else:
            raise KeyError(u)
    info = {"unit": "+".join(units), "engine": "KL", "sub": infos,
            "checker_cmd": "; ".join(i["checker_cmd"] for i in infos), "wall_s": sum(i["wall_s"] for i in infos)}
    return obls, info


if __name__ == "__main__":
    # measurement helper:  python3 -m engine.kl 1,8,64 [filter ...]
    import tempfile
    sys.path.insert(0, VERIF)
    widths = [int(x) for x in sys.argv[1].split(",")]
    only = sys.argv[2:] or None
    scratch = tempfile.mkdtemp(prefix="patronus-verif.", dir="/var/tmp")
    o, i, _ = run_baa_kernels("/repo", scratch, "quick", only, widths)
    for x in sorted(o, key=lambda z: -z.time_s):
        print(f"{x.status:11s} {x.time_s:8.1f}s {x.name}  {json.dumps(x.detail)[:200] if x.status != 'discharged' else ''}")
    print(i)
    shutil.rmtree(scratch, ignore_errors=True)
