"""Build a unit's Verus file from the current /repo text and run Verus on it."""
from __future__ import annotations
import importlib, json, os, re, subprocess, sys, time
from dataclasses import dataclass, field
from typing import Dict, List, Optional
from .assemble import UnitBuild, VERIF, Emitted
from .extract import AnchorError
from .rewrite import RewriteError
from .lexer import LexError


@dataclass
class FnResult:
    name: str
    ok: Optional[bool]        # None = no SMT query recorded for it
    time_ms: float = 0.0
    rlimit: int = 0
    errors: List[dict] = field(default_factory=list)


@dataclass
class VerusResult:
    status: str               # ok | failed | undecided
    reason: str = ""
    verified: int = 0
    errors: int = 0
    fns: Dict[str, FnResult] = field(default_factory=dict)
    diagnostics: List[dict] = field(default_factory=list)
    wall_s: float = 0.0
    smt_ms: float = 0.0
    raw_stderr: str = ""
    cmd: str = ""


def algebra_text() -> str:
    sys.path.insert(0, VERIF)
    from ax.gen import render_verus
    return render_verus()


def build_unit(unit_name: str, repo: str, variant: Optional[str] = None):
    sys.path.insert(0, VERIF)
    mod = importlib.import_module(f"units.{unit_name}")
    ub = UnitBuild({"name": mod.NAME, "specs": mod.SPECS}, repo)
    if variant is None:
        mod.build(ub, algebra_text())
    else:
        mod.build(ub, algebra_text(), variant=variant)
    return mod, ub


SEMANTIC = ("postcondition not satisfied", "precondition not satisfied", "assertion failed", "invariant not satisfied",
            "decreases not satisfied", "possible arithmetic underflow/overflow", "possible division by zero",
            "loop invariant", "recommendation not met", "unreachable", "may be out of range", "index out of bounds",
            "failed this postcondition", "cannot show", "possible bit shift")


def run_verus(path: str, ub: Optional[UnitBuild] = None, rlimit: Optional[float] = None, threads: int = 8,
              extra: Optional[List[str]] = None, timeout: int = 1800) -> VerusResult:
    cmd = ["verus", path, "--output-json", "--time", "--error-format=json", "--num-threads", str(threads), "--multiple-errors", "4"]
    if rlimit:
        cmd += ["--rlimit", str(rlimit)]
    cmd += extra or []
    t0 = time.time()
    try:
        p = subprocess.run(cmd, capture_output=True, text=True, timeout=timeout, cwd=os.path.dirname(path))
    except subprocess.TimeoutExpired:
        return VerusResult("undecided", f"verus timed out after {timeout}s", wall_s=time.time() - t0, cmd=" ".join(cmd))
    res = VerusResult("undecided", wall_s=time.time() - t0, raw_stderr=p.stderr, cmd=" ".join(cmd))
    # diagnostics (stderr, one JSON object per line)
    for line in p.stderr.splitlines():
        line = line.strip()
        if not line.startswith("{"):
            continue
        try:
            d = json.loads(line)
        except json.JSONDecodeError:
            continue
        if d.get("$message_type") != "diagnostic":
            continue
        spans = d.get("spans") or []
        prim = [s for s in spans if s.get("is_primary")] or spans
        entry = {"level": d.get("level"), "message": d.get("message"),
                 "line": prim[0]["line_start"] if prim else None,
                 "lines": [(s["line_start"], s["line_end"], s.get("label")) for s in spans],
                 "text": (prim[0]["text"][0]["text"].strip() if prim and prim[0].get("text") else ""),
                 "rendered": d.get("rendered", "")}
        res.diagnostics.append(entry)
    try:
        out = json.loads(p.stdout)
    except json.JSONDecodeError:
        res.reason = "verus produced no JSON result (compile error or crash)"
        return res
    vr = out.get("verification-results", {})
    res.verified = vr.get("verified", 0)
    res.errors = vr.get("errors", 0)
    try:
        smt = out["times-ms"]["smt"]
        res.smt_ms = smt.get("total", 0)
        for m in smt.get("smt-run-module-times", []):
            for f in m.get("function-breakdown", []):
                name = f["function"]
                short = name.split("::", 1)[1] if "::" in name else name
                res.fns[short] = FnResult(short, bool(f.get("success")), f.get("time-micros", 0) / 1000.0, f.get("rlimit", 0))
    except KeyError:
        pass
    if vr.get("encountered-vir-error"):
        res.reason = "verus front-end (VIR) error: construct outside the dialect"
        return res
    errs = [d for d in res.diagnostics if d["level"] == "error" and not d["message"].startswith("aborting due to")]
    if vr.get("success"):
        res.status = "ok"
        return res
    if not vr and errs:
        res.reason = "rustc/verus compile error: " + errs[0]["message"]
        return res
    # attribute verification errors to functions through the line map
    non_semantic = []
    for d in errs:
        msg = d["message"]
        if any(k in msg for k in SEMANTIC):
            if ub is not None and d["line"] is not None:
                # prefer the span that lies in a verified function body
                owner = None
                e0 = ub.fn_at_line(d["line"])
                if e0 is not None and e0.kind == "verify":
                    owner = e0
                for (ls, le, lab) in ([] if owner else d["lines"]):
                    e = ub.fn_at_line(ls)
                    if e is not None and e.kind == "verify":
                        owner = e
                        break
                if owner is None:
                    owner = ub.fn_at_line(d["line"])
                d["fn"] = owner.name if owner else None
            if "rlimit" in msg or "resource limit" in msg.lower():
                non_semantic.append(d)
        elif "rlimit" in msg or "Resource limit" in msg or "timeout" in msg.lower():
            d["fn"] = None
            non_semantic.append(d)
        else:
            non_semantic.append(d)
    if non_semantic and not any("fn" in d and d.get("fn") for d in errs):
        res.reason = "non-semantic verus error: " + non_semantic[0]["message"]
        return res
    res.status = "failed"
    for d in errs:
        fn = d.get("fn")
        if fn:
            key = _match_fn(res.fns, fn)
            if key is None:
                res.fns[fn] = FnResult(fn, False)
                key = fn
            res.fns[key].ok = False
            res.fns[key].errors.append({"message": d["message"], "line": d["line"], "text": d["text"], "rendered": d["rendered"]})
    res.nonsemantic = non_semantic
    return res


def _match_fn(fns: Dict[str, FnResult], name: str) -> Optional[str]:
    if name in fns:
        return name
    tail = name.split("::")[-1]
    cands = [k for k in fns if k.split("::")[-1] == tail]
    if len(cands) == 1:
        return cands[0]
    cands = [k for k in fns if k.endswith(name)]
    return cands[0] if len(cands) == 1 else None


if __name__ == "__main__":
    unit = sys.argv[1]
    repo = sys.argv[2] if len(sys.argv) > 2 else "/repo"
    outdir = sys.argv[3] if len(sys.argv) > 3 else "/var/tmp/vpx"
    os.makedirs(outdir, exist_ok=True)
    try:
        mod, ub = build_unit(unit, repo)
    except (AnchorError, RewriteError, LexError) as e:
        print("UNDECIDED:", e)
        sys.exit(2)
    path = os.path.join(outdir, f"{unit}.rs")
    open(path, "w").write(ub.text())
    r = run_verus(path, ub)
    print(r.status, r.reason, f"verified={r.verified} errors={r.errors} wall={r.wall_s:.1f}s smt={r.smt_ms}ms")
    for d in r.diagnostics:
        if d["level"] == "error":
            print("--", d.get("fn"), d["message"], "line", d["line"])
            print(d["rendered"][:1500])
    for k, f in sorted(r.fns.items()):
        if f.ok is False:
            print("FAILED fn:", k)
