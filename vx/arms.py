"""Engine VA helpers: turn the arms of one big `match` into micro-functions (DESIGN §2).

What is dropped is exactly the driver around the table (the loop, the dispatch, the closure plumbing); each arm's
expression / closure body is kept verbatim and becomes the body of a synthesized function whose parameters are the
bindings of the arm's pattern (typed from the enum definition) plus a per-table schema.
"""
from __future__ import annotations
import re
from typing import Dict, List, Optional, Tuple
from .lexer import lex, code_toks, match_close, split_top_level
from .extract import Arm, AnchorError


def enum_variants(enum_text: str) -> Dict[str, dict]:
    """{variant: {"kind": tuple|struct|unit, "fields": [(name_or_index, type_text)]}} from verbatim `enum X { .. }` text"""
    T = code_toks(lex(enum_text))
    ob = next(i for i, t in enumerate(T) if t.text == "{")
    cb = match_close(T, ob)
    out: Dict[str, dict] = {}
    i = ob + 1
    while i < cb:
        t = T[i]
        if t.kind != "ident":
            i += 1
            continue
        name = t.text
        nxt = T[i + 1]
        if nxt.text == "(":
            e = match_close(T, i + 1)
            parts = split_top_level(T[i + 2:e], ",")
            out[name] = {"kind": "tuple", "fields": [(k, enum_text[p[0].start:p[-1].end]) for k, p in enumerate(parts) if p]}
            i = e + 1
        elif nxt.text == "{":
            e = match_close(T, i + 1)
            parts = split_top_level(T[i + 2:e], ",")
            fields = []
            for p in parts:
                if not p:
                    continue
                fields.append((p[0].text, enum_text[p[2].start:p[-1].end]))
            out[name] = {"kind": "struct", "fields": fields}
            i = e + 1
        else:
            out[name] = {"kind": "unit", "fields": []}
            i += 1
        if i < cb and T[i].text == ",":
            i += 1
    return out


def pattern_bindings(pat: str, variants: Dict[str, dict]) -> Tuple[Optional[str], List[Tuple[str, str]]]:
    """(variant name, [(binding, field type)]) for a single-constructor pattern `Enum::V(..)` / `Enum::V { .. }`"""
    p = pat.strip()
    m = re.match(r"^&?\s*(?:[A-Za-z_][A-Za-z0-9_]*::)+([A-Za-z_][A-Za-z0-9_]*)\s*(.*)$", p, re.S)
    if not m:
        return None, []
    v, rest = m.group(1), m.group(2).strip()
    if v not in variants:
        raise AnchorError(f"pattern variant {v} not in enum")
    info = variants[v]
    binds: List[Tuple[str, str]] = []
    if not rest:
        return v, binds
    T = code_toks(lex(rest))
    e = match_close(T, 0)
    parts = split_top_level(T[1:e], ",")
    if T[0].text == "(":
        for k, part in enumerate(parts):
            if not part:
                continue
            txt = rest[part[0].start:part[-1].end].strip()
            if txt in ("_", ".."):
                continue
            if not re.match(r"^[a-z_][A-Za-z0-9_]*$", txt):
                raise AnchorError(f"unsupported sub-pattern `{txt}`")
            binds.append((txt, info["fields"][k][1]))
    else:
        ftypes = dict(info["fields"])
        for part in parts:
            if not part:
                continue
            txt = rest[part[0].start:part[-1].end].strip()
            if txt == "..":
                continue
            if ":" in txt:
                f, b = [x.strip() for x in txt.split(":", 1)]
            else:
                f, b = txt, txt
            if b == "_":
                continue
            binds.append((b, ftypes[f]))
    return v, binds


def closure_call(body: str, helper: str) -> Optional[Tuple[List[str], str]]:
    """`helper(&mut stack, |a, b| BODY)` (optionally wrapped in `{ }`)  ->  ([a, b], BODY)"""
    b = body.strip()
    if b.startswith("{") and b.endswith("}"):
        b = b[1:-1].strip()
    T = code_toks(lex(b))
    if len(T) < 6 or T[0].text != helper or T[1].text != "(":
        return None
    cb = match_close(T, 1)
    if cb != len(T) - 1:
        return None
    args = split_top_level(T[2:cb], ",")
    # closure is the last argument; its parameters may contain commas, so locate the bars
    bars = [i for i, t in enumerate(T) if t.text == "|" ]
    if len(bars) < 2:
        return None
    params = [t.text for t in T[bars[0] + 1:bars[1]] if t.kind == "ident"]
    expr = b[T[bars[1] + 1].start:T[cb - 1].end]
    if expr.strip().startswith("{") and expr.strip().endswith("}"):
        expr = expr.strip()[1:-1].strip()
    return params, expr
