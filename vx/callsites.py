"""Call sites of one function inside a function body, each with its path condition (enclosing `if` conditions with
polarity) and its argument texts — used to read the schedule of `define_signals` calls off init_at / unroll."""
from __future__ import annotations
from typing import List, Tuple
from .lexer import lex, code_toks, match_close, split_top_level
from .extract import AnchorError


def call_sites(body: str, callee: str) -> List[dict]:
    T = code_toks(lex(body))
    # block structure: for each `{`, what introduces it
    intro = {}   # open index -> ("if", cond_text) | ("else", open index of the matching if-block) | ("other", None)
    i = 0
    for i, t in enumerate(T):
        if t.text != "{" or t.kind != "punct":
            continue
        # scan backwards to the start of the statement-ish context
        j = i - 1
        depth = 0
        kind = ("other", None)
        while j >= 0:
            x = T[j]
            if x.kind == "punct" and x.text in ")]":
                depth += 1
            elif x.kind == "punct" and x.text in "([":
                if depth == 0:
                    break
                depth -= 1
            elif depth == 0 and x.kind == "punct" and x.text in ("{", "}", ";"):
                break
            elif depth == 0 and x.kind == "ident" and x.text == "if":
                kind = ("if", body[T[j + 1].start:T[i - 1].end])
                break
            elif depth == 0 and x.kind == "ident" and x.text in ("match", "for", "while", "loop", "fn"):
                kind = (x.text, None)
                break
            j -= 1
        if i > 0 and T[i - 1].kind == "ident" and T[i - 1].text == "else":
            # the if-block that ends right before `else`
            k = i - 2
            assert T[k].text == "}"
            # find its open
            d = 0
            while k >= 0:
                if T[k].text == "}":
                    d += 1
                elif T[k].text == "{":
                    d -= 1
                    if d == 0:
                        break
                k -= 1
            kind = ("else", k)
        intro[i] = kind
    out = []
    for i, t in enumerate(T):
        if t.kind == "ident" and t.text == callee and i + 1 < len(T) and T[i + 1].text == "(" and (i == 0 or T[i - 1].text != "fn"):
            cb = match_close(T, i + 1)
            args = [body[a[0].start:a[-1].end] for a in split_top_level(T[i + 2:cb], ",") if a]
            # enclosing blocks
            conds: List[Tuple[bool, str]] = []
            stack = []
            for j in range(0, i):
                if T[j].kind == "punct" and T[j].text == "{":
                    stack.append(j)
                elif T[j].kind == "punct" and T[j].text == "}":
                    stack.pop()
            for ob in stack:
                k = intro.get(ob, ("other", None))
                if k[0] == "if":
                    conds.append((True, k[1]))
                elif k[0] == "else":
                    ik = intro.get(k[1])
                    if ik and ik[0] == "if":
                        conds.append((False, ik[1]))
                    else:
                        raise AnchorError("else of a non-simple if")
                elif k[0] in ("for", "while", "loop", "match"):
                    raise AnchorError(f"call to {callee} inside a {k[0]} block: schedule is not static")
            out.append({"args": args, "conds": conds, "pos": t.start})
    return out
