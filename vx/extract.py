"""Cut items (fn / enum / struct / match arms / closures) verbatim out of Rust source text.

Every anchor is looked up in /repo's *current* text on every run.  A missing or ambiguous
anchor raises AnchorError, which the driver reports as UNDECIDED (exit 2), never as a violation.
"""
from __future__ import annotations
import re
from dataclasses import dataclass, field
from typing import List, Optional, Tuple
from .lexer import Tok, lex, code_toks, match_close, LexError


class AnchorError(Exception):
    pass


@dataclass
class FnItem:
    file: str
    name: str
    line: int            # 1-based line of `fn` in the source file
    sig: str             # `fn name<..>(..) -> T where ..`   (no visibility, no attributes)
    body: str            # `{ ... }`
    impl_header: Optional[str] = None

    @property
    def text(self):
        return self.sig + " " + self.body


def _norm(s: str) -> str:
    return re.sub(r"\s+", " ", s).strip()


class Source:
    def __init__(self, path: str, text: Optional[str] = None):
        self.path = path
        self.src = text if text is not None else open(path, encoding="utf-8").read()
        self.toks = code_toks(lex(self.src))
        self._line_starts = [0]
        for m in re.finditer("\n", self.src):
            self._line_starts.append(m.end())

    def line_of(self, pos: int) -> int:
        import bisect
        return bisect.bisect_right(self._line_starts, pos)

    # -- impl blocks -------------------------------------------------------------------
    def impl_blocks(self) -> List[Tuple[str, int, int]]:
        """[(normalized header, idx_open_brace, idx_close_brace)] for top-level impl/trait blocks (also nested in mod)."""
        out = []
        T = self.toks
        i = 0
        while i < len(T):
            t = T[i]
            if t.kind == "ident" and t.text in ("impl", "trait") and (i == 0 or T[i - 1].text not in (".", "::")):
                # `impl` inside types (`impl Trait` in arg position) is preceded by ':' '(' ',' '->' '&' etc.
                prev = T[i - 1].text if i else ""
                if t.text == "impl" and prev in (":", "(", ",", "->", "&", "<", "mut", "dyn", "="):
                    i += 1; continue
                j = i + 1
                while j < len(T) and not (T[j].kind == "punct" and T[j].text in ("{", ";")):
                    j += 1
                if j < len(T) and T[j].text == "{":
                    k = match_close(T, j)
                    hdr = _norm(self.src[t.start:T[j].start])
                    out.append((hdr, j, k))
                    i = j + 1  # descend (fns inside are found by range checks)
                    continue
            i += 1
        return out

    # -- functions ---------------------------------------------------------------------
    def _fn_at(self, i: int) -> Tuple[int, int, int]:
        """T[i] is `fn`; returns (i, idx_body_open, idx_body_close). Raises if it is a declaration without body."""
        T = self.toks
        j = i + 1
        depth = 0
        while j < len(T):
            t = T[j]
            if t.kind == "punct":
                if t.text in "([":
                    depth += 1
                elif t.text in ")]":
                    depth -= 1
                elif t.text == "{" and depth == 0:
                    return i, j, match_close(T, j)
                elif t.text == ";" and depth == 0:
                    return i, -1, j
            j += 1
        raise AnchorError(f"{self.path}: cannot find body of fn at {T[i].start}")

    def find_fns(self, name: str, impl: Optional[str] = None) -> List[FnItem]:
        T = self.toks
        blocks = self.impl_blocks()
        res = []
        for i, t in enumerate(T):
            if t.kind == "ident" and t.text == "fn" and i + 1 < len(T) and T[i + 1].text == name and T[i + 1].kind == "ident":
                # innermost enclosing impl block
                enclosing = None
                for hdr, o, c in blocks:
                    if o < i < c:
                        if enclosing is None or o > enclosing[1]:
                            enclosing = (hdr, o, c)
                if impl is not None:
                    if enclosing is None or enclosing[0] != _norm(impl):
                        continue
                elif enclosing is not None:
                    continue
                _, bo, bc = self._fn_at(i)
                if bo < 0:
                    continue  # trait method declaration
                sig = self.src[t.start:T[bo].start].rstrip()
                body = self.src[T[bo].start:T[bc].end]
                res.append(FnItem(self.path, name, self.line_of(t.start), sig, body,
                                  enclosing[0] if enclosing else None))
        return res

    def find_fn(self, name: str, impl: Optional[str] = None) -> FnItem:
        r = self.find_fns(name, impl)
        if len(r) != 1:
            where = f" in `{impl}`" if impl else ""
            raise AnchorError(f"{self.path}: expected exactly one `fn {name}`{where}, found {len(r)}")
        return r[0]

    # -- data items --------------------------------------------------------------------
    def find_item(self, kind: str, name: str) -> Tuple[str, int]:
        """verbatim text of `enum Name {..}` / `struct Name {..}` / `struct Name(..);` (no attrs, no vis) and its line."""
        T = self.toks
        hits = []
        for i, t in enumerate(T):
            if t.kind == "ident" and t.text == kind and i + 1 < len(T) and T[i + 1].text == name:
                j = i + 2
                # generics
                while j < len(T) and not (T[j].kind == "punct" and T[j].text in ("{", "(", ";")):
                    j += 1
                if T[j].text == ";":
                    end = j
                else:
                    end = match_close(T, j)
                    if T[j].text == "(":
                        # tuple struct: up to `;`
                        while T[end].text != ";":
                            end += 1
                hits.append((self.src[t.start:T[end].end], self.line_of(t.start)))
        if len(hits) != 1:
            raise AnchorError(f"{self.path}: expected exactly one `{kind} {name}`, found {len(hits)}")
        return hits[0]


# ---------------------------------------------------------------------------------------
# structure inside a function body
# ---------------------------------------------------------------------------------------

def loops_in(text: str) -> List[Tuple[str, int, int]]:
    """[(keyword, pos_of_keyword, pos_of_body_open_brace)] for every while/for/loop in `text`, in order."""
    T = code_toks(lex(text))
    out = []
    for i, t in enumerate(T):
        if t.kind == "ident" and t.text in ("while", "for", "loop"):
            if t.text == "for" and i > 0 and T[i - 1].text in ("<", "+", "impl", ">"):
                continue  # `for<'a>` / `impl Trait for`
            if t.text == "for" and i + 1 < len(T) and T[i + 1].text == "<":
                continue
            # body `{` : first `{` at depth 0 that is not part of a struct literal — conditions in this
            # code base never contain block-like braces except closures/matches, which we skip by depth.
            j = i + 1
            depth = 0
            while j < len(T):
                x = T[j]
                if x.kind == "punct":
                    if x.text in "([":
                        depth += 1
                    elif x.text in ")]":
                        depth -= 1
                    elif x.text == "{" and depth == 0:
                        break
                j += 1
            if j >= len(T):
                raise AnchorError("loop without body")
            out.append((t.text, t.start, T[j].start))
    return out


@dataclass
class Arm:
    pat: str        # pattern text (without guard)
    guard: Optional[str]
    body: str       # body expression/block text, verbatim, without trailing comma
    start: int      # offsets in the text given to match_arms
    end: int


def match_arms(text: str, open_brace_pos: int) -> List[Arm]:
    """arms of the `match .. {` whose `{` is at text[open_brace_pos]."""
    T = code_toks(lex(text))
    idx = None
    for i, t in enumerate(T):
        if t.start == open_brace_pos and t.text == "{":
            idx = i
            break
    if idx is None:
        raise AnchorError("match brace not found")
    close = match_close(T, idx)
    arms: List[Arm] = []
    i = idx + 1
    while i < close:
        # pattern up to `=>` at depth 0
        start = i
        depth = 0
        j = i
        guard_at = None
        while j < close:
            x = T[j]
            if x.kind == "punct":
                if x.text in "([{":
                    depth += 1
                elif x.text in ")]}":
                    depth -= 1
                elif x.text == "=>" and depth == 0:
                    break
            if x.kind == "ident" and x.text == "if" and depth == 0 and guard_at is None:
                guard_at = j
            j += 1
        if j >= close:
            break
        pat_end = guard_at if guard_at is not None else j
        pat = text[T[start].start:T[pat_end - 1].end]
        guard = text[T[guard_at + 1].start:T[j - 1].end] if guard_at is not None else None
        # body
        b = j + 1
        if T[b].text == "{":
            e = match_close(T, b)
            body = text[T[b].start:T[e].end]
            nxt = e + 1
            if nxt < close and T[nxt].text == ",":
                nxt += 1
        else:
            depth = 0
            e = b
            while e < close:
                x = T[e]
                if x.kind == "punct":
                    if x.text in "([{":
                        depth += 1
                    elif x.text in ")]}":
                        depth -= 1
                    elif x.text == "," and depth == 0:
                        break
                e += 1
            body = text[T[b].start:T[e - 1].end]
            nxt = e + 1
        arms.append(Arm(pat, guard, body, T[start].start, T[min(nxt, close) - 1].end))
        i = nxt
    return arms


def find_match(text: str, nth: int = 0, scrutinee_prefix: Optional[str] = None) -> int:
    """position of the `{` that opens the nth `match` expression in text (optionally whose scrutinee text starts with prefix)."""
    T = code_toks(lex(text))
    k = 0
    for i, t in enumerate(T):
        if t.kind == "ident" and t.text == "match":
            j = i + 1
            depth = 0
            while j < len(T):
                x = T[j]
                if x.kind == "punct":
                    if x.text in "([":
                        depth += 1
                    elif x.text in ")]":
                        depth -= 1
                    elif x.text == "{" and depth == 0:
                        break
                j += 1
            scr = text[T[i + 1].start:T[j - 1].end]
            if scrutinee_prefix is not None and not _norm(scr).startswith(_norm(scrutinee_prefix)):
                continue
            if k == nth:
                return T[j].start
            k += 1
    raise AnchorError(f"match #{nth} (scrutinee {scrutinee_prefix!r}) not found")
