"""Parser for /verif/contracts/*.spec — contracts keyed by function name and loop ordinal.

    @fn NAME                         start a contract (NAME may be `Type::name` to disambiguate)
    @impl <impl header>              the function lives in this impl block of the source file
    @as   <impl header>              emit it inside this impl block in the Verus file (default: same as @impl)
    @sig  <signature>                override the real signature (logged as an assumption; used where the real one
                                     is generic over traits the dialect lacks)
    @returns NAME                    name of the return value in `ensures` (default: res)
    @requires / @ensures / @decreases    clause lists (raw Verus text, comma separated)
    @prefix                          proof text inserted at the start of the body (e.g. `broadcast use ..;`)
    @loop N                          the following @invariant/@decreases/@ensures belong to the N-th loop (1-based)
    @invariant
    @inject N <anchor-regex>         following lines: proof text inserted right after the first statement matching
                                     the regex inside loop N (0 = function body)
    @note                            free text
Lines starting with `#` are comments.
"""
from __future__ import annotations
import re
from dataclasses import dataclass, field
from typing import Dict, List, Optional


@dataclass
class LoopSpec:
    invariant: str = ""
    decreases: str = ""
    ensures: str = ""
    invariant_except_break: str = ""


@dataclass
class FnSpec:
    name: str
    impl: Optional[str] = None
    as_impl: Optional[str] = None
    sig: Optional[str] = None
    returns: str = "res"
    requires: str = ""
    ensures: str = ""
    decreases: str = ""
    prefix: str = ""
    note: str = ""
    loops: Dict[int, LoopSpec] = field(default_factory=dict)
    injects: List[tuple] = field(default_factory=list)   # (loop, regex, text)
    attrs: str = ""


def parse_spec(path: str) -> Dict[str, FnSpec]:
    out: Dict[str, FnSpec] = {}
    cur: Optional[FnSpec] = None
    section = None
    loop = 0
    inject = None
    for raw in open(path, encoding="utf-8"):
        line = raw.rstrip("\n")
        if line.startswith("#"):
            continue
        m = re.match(r"@(\w+)\s*(.*)$", line)
        if m:
            key, rest = m.group(1), m.group(2).strip()
            if key == "fn":
                cur = FnSpec(rest)
                if rest in out:
                    raise ValueError(f"{path}: duplicate contract for {rest}")
                out[rest] = cur
                section, loop, inject = None, 0, None
            elif cur is None:
                raise ValueError(f"{path}: {line!r} before @fn")
            elif key == "impl":
                cur.impl = rest
            elif key == "as":
                cur.as_impl = rest
            elif key == "sig":
                cur.sig = rest
            elif key == "returns":
                cur.returns = rest
            elif key == "attrs":
                cur.attrs = rest
            elif key == "loop":
                loop = int(rest)
                cur.loops.setdefault(loop, LoopSpec())
                section = None
            elif key == "inject":
                mm = re.match(r"(\d+)\s+(.*)$", rest)
                inject = [int(mm.group(1)), mm.group(2), ""]
                cur.injects.append(inject)
                section = "inject"
            elif key in ("requires", "ensures", "decreases", "prefix", "note", "invariant", "invariant_except_break"):
                section = key
                if rest:
                    _append(cur, loop, section, rest, inject)
            else:
                raise ValueError(f"{path}: unknown directive @{key}")
            continue
        if cur is not None and section is not None:
            _append(cur, loop, section, line, inject)
    return out


def _append(cur: FnSpec, loop: int, section: str, text: str, inject):
    if section == "inject":
        inject[2] += text + "\n"
        return
    if section in ("invariant", "invariant_except_break") or (loop and section in ("decreases", "ensures")):
        ls = cur.loops.setdefault(loop, LoopSpec())
        setattr(ls, section, getattr(ls, section) + text + "\n")
    else:
        setattr(cur, section, getattr(cur, section) + text + "\n")
