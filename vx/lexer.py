"""Minimal Rust lexer: enough to find items, match brackets and rewrite token runs.

No third-party parser.  Understands line/nested block comments, string, raw string,
byte string, char and byte literals, lifetimes, numbers, identifiers and punctuation.
"""
from __future__ import annotations
from dataclasses import dataclass
from typing import List, Optional, Tuple


@dataclass
class Tok:
    kind: str   # ident | punct | str | char | lifetime | num | comment | ws
    text: str
    start: int
    end: int

    def __repr__(self):
        return f"{self.kind}:{self.text!r}"


class LexError(Exception):
    pass


_ID_START = set("abcdefghijklmnopqrstuvwxyzABCDEFGHIJKLMNOPQRSTUVWXYZ_")
_ID_CONT = _ID_START | set("0123456789")
_PUNCT3 = {"<<=", ">>=", "...", "..="}
_PUNCT2 = {"::", "->", "=>", "==", "!=", "<=", ">=", "&&", "||", "+=", "-=", "*=", "/=",
           "%=", "^=", "&=", "|=", "<<", ">>", ".."}


def lex(src: str) -> List[Tok]:
    toks: List[Tok] = []
    i, n = 0, len(src)
    while i < n:
        c = src[i]
        # whitespace
        if c in " \t\r\n":
            j = i
            while j < n and src[j] in " \t\r\n":
                j += 1
            toks.append(Tok("ws", src[i:j], i, j)); i = j; continue
        # comments
        if src.startswith("//", i):
            j = src.find("\n", i)
            j = n if j < 0 else j
            toks.append(Tok("comment", src[i:j], i, j)); i = j; continue
        if src.startswith("/*", i):
            depth, j = 1, i + 2
            while j < n and depth > 0:
                if src.startswith("/*", j):
                    depth += 1; j += 2
                elif src.startswith("*/", j):
                    depth -= 1; j += 2
                else:
                    j += 1
            if depth:
                raise LexError("unterminated block comment")
            toks.append(Tok("comment", src[i:j], i, j)); i = j; continue
        # raw strings r"..", r#".."#, br".."
        if c in "rb":
            j = i
            if src.startswith("br", j):
                j += 2
            elif c == "r":
                j += 1
            else:
                j = -1
            if j > 0:
                k = j
                while k < n and src[k] == "#":
                    k += 1
                if k < n and src[k] == '"' and (k > j or src[j] == '"'):
                    hashes = k - j
                    endpat = '"' + "#" * hashes
                    e = src.find(endpat, k + 1)
                    if e < 0:
                        raise LexError("unterminated raw string")
                    e += len(endpat)
                    toks.append(Tok("str", src[i:e], i, e)); i = e; continue
        # byte string / byte char
        if c == "b" and i + 1 < n and src[i + 1] in "\"'":
            q = src[i + 1]
            j = i + 2
            while j < n and src[j] != q:
                j += 2 if src[j] == "\\" else 1
            if j >= n:
                raise LexError("unterminated byte literal")
            toks.append(Tok("str" if q == '"' else "char", src[i:j + 1], i, j + 1)); i = j + 1; continue
        if c == '"':
            j = i + 1
            while j < n and src[j] != '"':
                j += 2 if src[j] == "\\" else 1
            if j >= n:
                raise LexError("unterminated string")
            toks.append(Tok("str", src[i:j + 1], i, j + 1)); i = j + 1; continue
        if c == "'":
            # char literal or lifetime
            if i + 2 < n and src[i + 1] == "\\":
                j = i + 2
                while j < n and src[j] != "'":
                    j += 1
                toks.append(Tok("char", src[i:j + 1], i, j + 1)); i = j + 1; continue
            if i + 2 < n and src[i + 2] == "'":
                toks.append(Tok("char", src[i:i + 3], i, i + 3)); i += 3; continue
            # non-ascii single char literal
            if i + 1 < n and src[i + 1] not in _ID_START:
                j = src.find("'", i + 1)
                if 0 < j <= i + 6:
                    toks.append(Tok("char", src[i:j + 1], i, j + 1)); i = j + 1; continue
            j = i + 1
            while j < n and src[j] in _ID_CONT:
                j += 1
            toks.append(Tok("lifetime", src[i:j], i, j)); i = j; continue
        if c in _ID_START:
            j = i + 1
            while j < n and src[j] in _ID_CONT:
                j += 1
            toks.append(Tok("ident", src[i:j], i, j)); i = j; continue
        if c.isdigit():
            j = i + 1
            while j < n and (src[j] in _ID_CONT or (src[j] == "." and j + 1 < n and src[j + 1].isdigit())):
                j += 1
            toks.append(Tok("num", src[i:j], i, j)); i = j; continue
        if src[i:i + 3] in _PUNCT3:
            toks.append(Tok("punct", src[i:i + 3], i, i + 3)); i += 3; continue
        if src[i:i + 2] in _PUNCT2:
            toks.append(Tok("punct", src[i:i + 2], i, i + 2)); i += 2; continue
        toks.append(Tok("punct", c, i, i + 1)); i += 1
    return toks


def code_toks(toks: List[Tok]) -> List[Tok]:
    """tokens without whitespace and comments"""
    return [t for t in toks if t.kind not in ("ws", "comment")]


_OPEN = {"(": ")", "[": "]", "{": "}"}
_CLOSE = {")": "(", "]": "[", "}": "{"}


def match_close(toks: List[Tok], i: int) -> int:
    """toks[i] is an opening bracket (code token list); return index of the matching close.

    `<`/`>` are never treated as brackets here.  `>>` etc. are irrelevant for ()[]{}.
    """
    assert toks[i].kind == "punct" and toks[i].text in _OPEN, toks[i]
    depth = 0
    for j in range(i, len(toks)):
        t = toks[j]
        if t.kind != "punct":
            continue
        if t.text in _OPEN:
            depth += 1
        elif t.text in _CLOSE:
            depth -= 1
            if depth == 0:
                if _OPEN[toks[i].text] != t.text:
                    raise LexError(f"mismatched bracket at {t.start}")
                return j
    raise LexError(f"unbalanced bracket at {toks[i].start}")


def split_top_level(toks: List[Tok], sep: str = ",") -> List[List[Tok]]:
    """split a code-token list at top-level `sep` (ignoring nesting in ()[]{} and closures' |..|)."""
    out, cur, depth = [], [], 0
    for t in toks:
        if t.kind == "punct":
            if t.text in _OPEN:
                depth += 1
            elif t.text in _CLOSE:
                depth -= 1
            elif t.text == sep and depth == 0:
                out.append(cur); cur = []
                continue
        cur.append(t)
    if cur:
        out.append(cur)
    return out


def text_of(src: str, toks: List[Tok]) -> str:
    if not toks:
        return ""
    return src[toks[0].start:toks[-1].end]
