"""Assemble one Verus file for a unit: prelude + generated algebra + lemmas + extracted items + contract stubs +
verified functions (real text after the closed rewrite list, with contracts injected)."""
from __future__ import annotations
import hashlib, json, os, re
from dataclasses import dataclass, field
from typing import Dict, List, Optional, Tuple
from .extract import Source, FnItem, AnchorError, loops_in
from .lexer import split_top_level, lex, code_toks, match_close
from .spec import FnSpec, parse_spec
from . import rewrite as RW

VERIF = os.path.dirname(os.path.dirname(os.path.abspath(__file__)))


@dataclass
class Emitted:
    name: str            # verus function name (as it appears in function-breakdown, last path segments)
    kind: str            # verify | stub | lemma
    file: str            # repo-relative source file ('' for lemmas)
    line: int            # line in the source file
    gen_start: int = 0   # line range in the generated file
    gen_end: int = 0
    contract: str = ""
    rewrites: Dict[str, int] = field(default_factory=dict)
    sha256: str = ""     # of the extracted real text
    impl: Optional[str] = None


class UnitBuild:
    def __init__(self, unit: dict, repo: str):
        self.unit = unit
        self.repo = repo
        self.sources: Dict[str, Source] = {}
        self.specs: Dict[str, FnSpec] = {}
        for sp in unit.get("specs", []):
            d = parse_spec(os.path.join(VERIF, sp))
            for k, v in d.items():
                if k in self.specs:
                    raise ValueError(f"duplicate contract {k}")
                self.specs[k] = v
        self.emitted: List[Emitted] = []
        self.lines: List[str] = []
        self.assumed_sigs: List[str] = []
        self.carved: List[dict] = []

    # ------------------------------------------------------------------ helpers
    def src(self, rel: str) -> Source:
        if rel not in self.sources:
            p = os.path.join(self.repo, rel)
            if not os.path.exists(p):
                raise AnchorError(f"source file {rel} is missing")
            self.sources[rel] = Source(p)
        return self.sources[rel]

    def out(self, text: str) -> Tuple[int, int]:
        start = len(self.lines) + 1
        self.lines.extend(text.split("\n"))
        return start, len(self.lines)

    # ------------------------------------------------------------------ signature handling
    @staticmethod
    def name_return(sig: str, rname: str) -> str:
        """`fn f(..) -> T where ..`  =>  `fn f(..) -> (rname: T) where ..`"""
        T = code_toks(lex(sig))
        depth = 0
        arrow = None
        for i, t in enumerate(T):
            if t.kind == "punct":
                if t.text in "([":
                    depth += 1
                elif t.text in ")]":
                    depth -= 1
                elif t.text == "->" and depth == 0:
                    arrow = i
                    break
        if arrow is None:
            return sig
        # return type ends at `where` (depth 0) or end
        end = len(T)
        angle = 0
        for j in range(arrow + 1, len(T)):
            if T[j].kind == "ident" and T[j].text == "where" and angle == 0:
                end = j
                break
            if T[j].text == "<":
                angle += 1
            elif T[j].text == ">":
                angle -= 1
            elif T[j].text == ">>":
                angle -= 2
        rt = sig[T[arrow + 1].start:T[end - 1].end]
        tail = sig[T[end - 1].end:]
        return sig[:T[arrow].end] + f" ({rname}: {rt})" + tail

    @staticmethod
    def clauses(spec: FnSpec) -> str:
        s = ""
        if spec.requires.strip():
            s += "    requires\n" + _indent(spec.requires, 8)
        if spec.ensures.strip():
            s += "    ensures\n" + _indent(spec.ensures, 8)
        if spec.decreases.strip():
            s += "    decreases\n" + _indent(spec.decreases, 8)
        return s

    # ------------------------------------------------------------------ emitters
    def emit_item(self, rel: str, kind: str, name: str, derive: str = "", replace: Optional[List[List[str]]] = None):
        text, line = self.src(rel).find_item(kind, name)
        text = RW.strip_attrs_and_doc(text)
        for a, b in (replace or []):
            text = text.replace(a, b)
        hdr = f"// @@ITEM {kind} {name}  <- {rel}:{line} (verbatim)\n"
        if derive:
            hdr += derive + "\n"
        s, e = self.out(hdr + "pub " + text + "\n")
        self.emitted.append(Emitted(name, "item", rel, line, s, e, sha256=_sha(text)))

    def emit_fn(self, rel: str, name: str, mode: str, impl: Optional[str] = None, cfg: Optional[dict] = None, spec_key: Optional[str] = None):
        cfg = cfg or {}
        key = spec_key or name
        spec = self.specs.get(key)
        if spec is None:
            raise AnchorError(f"no contract for {key}")
        impl = impl or spec.impl
        item = self.src(rel).find_fn(name, impl)
        sig = item.sig
        if spec.sig:
            self.assumed_sigs.append(f"{rel}::{key}: real `{_one(sig)}` declared as `{_one(spec.sig)}`")
            sig = spec.sig
        sig = self.name_return(sig, spec.returns)
        counts: Dict[str, int] = {}
        contract = self.clauses(spec)
        vis = "pub "
        if mode == "stub":
            text = f"#[verifier::external_body]\n{spec.attrs}{vis}{sig}\n{contract}{{ unimplemented!() }}\n"
        else:
            body, counts = self.rewrite_body(item.body, cfg)
            body = self.inject(body, spec)
            text = f"{spec.attrs}{vis}{sig}\n{contract}{body}\n"
        out_impl = None if spec.as_impl == "-" else (spec.as_impl or impl)
        if mode == "verify" and cfg.get("split"):
            return self.emit_split(rel, key, item, sig, spec, body, counts, cfg, out_impl)
        hdr = f"// @@FN {mode} {key}  <- {rel}:{item.line}\n"
        if out_impl:
            text = f"{out_impl} {{\n{text}}}\n"
        s, e = self.out(hdr + text)
        self.emitted.append(Emitted(cfg.get("obligation_name", key), mode, rel, item.line, s, e, contract=contract, rewrites=counts,
                                    sha256=_sha(item.text), impl=out_impl))
        if mode == "verify" and not cfg.get("no_canary"):
            self.emit_canary(sig, spec, key, out_impl)

    def pin_assumed_fn(self, rel: str, name: str, impl: Optional[str] = None, note: str = ""):
        """a function of /repo whose behaviour this unit ASSUMES without emitting it (outside the dialect): its text is pinned by
        SHA-256, so that a change of the assumed code makes the run undecided instead of going unnoticed"""
        item = self.src(rel).find_fn(name, impl)
        self.emitted.append(Emitted(name, "stub", rel, item.line, 0, 0, contract=note, sha256=_sha(item.text), impl=impl))

    def pin_rest_of_file(self, rel: str, note: str = "in the file the property is anchored in, not under contract; pinned by hash"):
        """FRAME of a unit: every function of `rel` (outside `#[cfg(test)]` modules) that this unit neither verifies nor already
        assumes is pinned by SHA-256.  The claim is about the functions under contract *in the context of the rest of the file as it
        was*; a change of any other function makes the run undecided instead of passing without having looked at it.  (A function
        that another unit of the property verifies is exempted by the driver: same file and line.)"""
        src = self.src(rel)
        T = src.toks
        # ranges of #[cfg(test)] modules
        skip = []
        for i, t in enumerate(T):
            if t.kind == "ident" and t.text == "mod" and i + 2 < len(T) and T[i + 2].text == "{":
                pre = src.src[max(0, t.start - 80):t.start]
                if re.search(r"#\[cfg\(test\)\]\s*(pub\s+)?$", pre):
                    skip.append((i, match_close(T, i + 2)))
        blocks = src.impl_blocks()
        have = {(e.file, e.name.split("::")[-1], e.line) for e in self.emitted if e.file == rel}
        have_names = {(e.name.split("::")[-1].split("#")[0].split("__")[0]) for e in self.emitted if e.file == rel}
        seen = {}
        i = 0
        while i < len(T):
            t = T[i]
            if any(a <= i <= b for a, b in skip):
                i += 1
                continue
            if t.kind == "ident" and t.text == "fn" and i + 1 < len(T) and T[i + 1].kind == "ident":
                name = T[i + 1].text
                _, bo, bc = src._fn_at(i)
                if bo < 0:
                    i += 1
                    continue
                line = src.line_of(t.start)
                hdr = None
                for h, o, c in blocks:
                    if o < i < c:
                        hdr = h
                text = src.src[t.start:T[bc].end]
                if name not in have_names:
                    n = seen.get(name, 0)
                    seen[name] = n + 1
                    key = name if n == 0 else f"{name}#{n + 1}"
                    self.emitted.append(Emitted(key, "stub", rel, line, 0, 0, contract=note, sha256=_sha(text), impl=hdr))
                i = bc + 1   # nested fns / closures belong to the enclosing function's text
                continue
            i += 1

    def emit_split(self, rel, key, item, sig, spec, body, counts, cfg, out_impl):
        """Case split on the enum variant matched by one big `match` of the function (DESIGN §2, engine VA):
        one obligation per variant V with the extra precondition `<on> is V`, in which every arm for another variant is
        replaced by `unreached()` (so it is PROVED dead, not assumed), plus one obligation `#other` for all remaining
        variants.  The preconditions are V1, .., Vn and `none of V1..Vn`, which is exhaustive by construction."""
        from .extract import find_match, match_arms
        from . import rewrite as RW2
        sp = cfg["split"]
        pos = find_match(body, sp.get("nth", 0), sp.get("scrutinee"))
        arms = match_arms(body, pos)
        groups: Dict[str, List[int]] = {}
        for k, a in enumerate(arms):
            comps = RW2._pat_components(a.pat)
            c = RW2._ctor(comps[sp.get("slot", 0)])
            if c is not None:
                groups.setdefault(c.split("::")[-1], []).append(k)
        on = sp["on"]
        variants = list(groups)
        def variant_body(keep: Optional[str]):
            edits = []
            for v, idxs in groups.items():
                if v == keep:
                    continue
                for k in idxs:
                    a = arms[k]
                    g = f" if {a.guard}" if a.guard else ""
                    edits.append((a.start, a.end, f"{a.pat}{g} => unreached(),"))
            return RW2._apply(body, edits)
        first = True
        for v in variants + [None]:
            b = variant_body(v)
            name = item.name + "__" + (v or "other")
            extra = f"({on}) is {v}" if v else " && ".join(f"!(({on}) is {x})" for x in variants)
            sp2 = FnSpec(spec.name, requires=spec.requires.rstrip("\n") + "\n" + extra + ",\n", ensures=spec.ensures, decreases=spec.decreases)
            contract = self.clauses(sp2)
            sig2 = re.sub(r"\bfn\s+" + re.escape(item.name) + r"\b", "fn " + name, sig, count=1)
            text = f"{spec.attrs}pub {sig2}\n{contract}{b}\n"
            if out_impl:
                text = f"{out_impl} {{\n{text}}}\n"
            s, e = self.out(f"// @@FN verify {key}#{v or 'other'}  <- {rel}:{item.line} (variant split)\n" + text)
            self.emitted.append(Emitted(name, "verify", rel, item.line, s, e, contract=contract,
                                        rewrites=dict(counts, VA=1) if first else {"VA": 1}, sha256=_sha(item.text), impl=out_impl))
            first = False
        # the unsplit signature is what callers see
        text = f"#[verifier::external_body]\n{spec.attrs}pub {sig}\n{self.clauses(spec)}{{ unimplemented!() }}\n"
        if out_impl:
            text = f"{out_impl} {{\n{text}}}\n"
        s, e = self.out(f"// @@FN split-summary {key}: contract proved by the {len(variants) + 1} variant obligations above\n" + text)
        self.emitted.append(Emitted(key, "split-summary", rel, item.line, s, e, contract=self.clauses(spec), impl=out_impl))
        if not cfg.get("no_canary"):
            self.emit_canary(sig, spec, key, out_impl)

    def emit_synth(self, key: str, name: str, sig: str, body: str, rel: str, line: int, cfg: Optional[dict] = None, note: str = "", mode: str = "verify"):
        """engine VA: a synthesized micro-function around real text (an arm body / closure body) with the contract `key`"""
        cfg = cfg or {}
        spec = self.specs.get(key)
        if spec is None:
            raise AnchorError(f"no contract for {key}")
        sig = self.name_return(sig, spec.returns)
        if mode == "stub":
            text = f"#[verifier::external_body]\npub {sig}\n{self.clauses(spec)}{{ unimplemented!() }}\n"
            s, e = self.out(f"// @@FN stub {key}  <- {rel}:{line} (contract verified in another unit)\n" + text)
            self.emitted.append(Emitted(name, "stub", rel, line, s, e, contract=self.clauses(spec), sha256=_sha(body)))
            return
        body2, counts = self.rewrite_body(body, cfg)
        body2 = self.inject(body2, spec)
        contract = self.clauses(spec)
        text = f"{spec.attrs}pub {sig}\n{contract}{body2}\n"
        s, e = self.out(f"// @@FN verify {key}  <- {rel}:{line} ({note or 'synthesized around verbatim arm text'})\n" + text)
        self.emitted.append(Emitted(name, "verify", rel, line, s, e, contract=contract, rewrites=dict(counts, VA=1), sha256=_sha(body)))
        if not cfg.get("no_canary"):
            self.emit_canary(sig, spec, name, None)

    def emit_assumed(self, key: str):
        """a function that has no source text of its own (R8 carve-out): signature and contract come from the spec file"""
        spec = self.specs[key]
        sig = self.name_return(spec.sig, spec.returns)
        text = f"#[verifier::external_body]\npub {sig}\n{self.clauses(spec)}{{ unimplemented!() }}\n"
        s, e = self.out(f"// @@FN carved {key}\n" + text)
        self.emitted.append(Emitted(key, "stub", "(carved block)", 0, s, e, contract=self.clauses(spec)))

    def emit_assumed_in(self, key: str, impl: str):
        spec = self.specs[key]
        sig = self.name_return(spec.sig, spec.returns)
        text = f"{impl} {{\n#[verifier::external_body]\npub {sig}\n{self.clauses(spec)}{{ unimplemented!() }}\n}}\n"
        s, e = self.out(f"// @@FN assumed {key}\n" + text)
        self.emitted.append(Emitted(key, "stub", "(dependency)", 0, s, e, contract=self.clauses(spec)))

    def emit_canary(self, sig: str, spec: FnSpec, key: str, out_impl: Optional[str]) -> Optional[str]:
        """`proof fn` with the same parameters and the same `requires` whose body asserts false: it must FAIL.
        If Verus proves it, the precondition (or the axiom base) is contradictory and every proof under it is vacuous."""
        if not spec.requires.strip():
            return None
        T = code_toks(lex(sig))
        # parameter list = first (...) after the fn name / generics
        i = 2
        if T[i].text == "<":
            depth = 0
            while True:
                if T[i].text == "<":
                    depth += 1
                elif T[i].text == ">":
                    depth -= 1
                elif T[i].text == ">>":
                    depth -= 2
                i += 1
                if depth <= 0:
                    break
        generics = sig[T[2].start:T[i - 1].end] if i > 2 else ""
        if T[i].text != "(":
            return None
        cb = match_close(T, i)
        params = sig[T[i].end:T[cb].start]
        if "dyn " in params:
            return None
        if "impl " in params:
            # `x: impl Trait` -> a named type parameter (same meaning for a caller-chosen argument type)
            PT = code_toks(lex(params))
            parts = split_top_level(PT, ",")
            new_params, extra = [], []
            for part in parts:
                if not part:
                    continue
                txt = params[part[0].start:part[-1].end]
                m = re.match(r"^(\s*(?:mut\s+)?[A-Za-z_][A-Za-z0-9_]*\s*:\s*)impl\s+(.*)$", txt, re.S)
                if m:
                    g = f"F__{len(extra)}"
                    extra.append(f"{g}: {m.group(2).strip()}")
                    txt = m.group(1) + g
                new_params.append(txt)
            params = ", ".join(new_params)
            generics = (generics.rstrip()[:-1] + ", " + ", ".join(extra) + ">") if generics.strip() else "<" + ", ".join(extra) + ">"
        params = re.sub(r"&\s*(\'[a-z_]+\s+)?mut\s+", lambda m: "&" + (m.group(1) or ""), params)
        params = re.sub(r"(^|,)\s*mut\s+", r"\1 ", params)
        where = ""
        for j in range(cb + 1, len(T)):
            if T[j].kind == "ident" and T[j].text == "where":
                where = " " + sig[T[j].start:]
                break
        req = re.sub(r"\bold\(\s*([A-Za-z_][A-Za-z0-9_]*)\s*\)", r"\1", spec.requires)
        name = "canary_pre_" + re.sub(r"\W+", "_", key)
        have = "\n".join(self.lines)
        groups = [g for g in ("group_bv_algebra", "group_arith") if f"broadcast group {g}" in have]
        bu = f"    broadcast use {', '.join(groups)};\n" if groups else ""
        text = f"proof fn {name}{generics}({params}){where}\n    requires\n{_indent(req, 8)}{{\n{bu}    assert(false);\n}}\n"
        if out_impl:
            text = f"{out_impl} {{\n{text}}}\n"
        s, e = self.out(f"// @@CANARY {key}\n" + text)
        self.emitted.append(Emitted(name, "canary", "", 0, s, e, impl=out_impl))
        return name

    def rewrite_body(self, body: str, cfg: dict) -> Tuple[str, Dict[str, int]]:
        counts: Dict[str, int] = {}
        def run(tag, fn, *a):
            nonlocal body
            body, n = fn(body, *a)
            if n:
                counts[tag] = counts.get(tag, 0) + n
        body = RW.strip_attrs_and_doc(body)
        if cfg.get("transform"):
            # unit-specific, logged structural rewrite (e.g. R16: outlining the arms of a match into functions)
            tag, fn = cfg["transform"]
            body, n = fn(body)
            counts[tag] = counts.get(tag, 0) + n
        for cv in cfg.get("carve", []):
            body, sha = carve_block(body, cv["token"], cv["call"])
            counts["R8"] = counts.get("R8", 0) + 1
            self.carved.append({"stub": cv["stub"], "token": cv["token"], "sha256": sha})
        for cv in cfg.get("carve_if", []):
            body, sha = carve_if(body, cv["token"], cv["call"])
            counts["R8"] = counts.get("R8", 0) + 1
            self.carved.append({"stub": cv["stub"], "token": cv["token"], "sha256": sha})
        run("R7", RW.r7_smallvec)
        if cfg.get("field_store"):
            run("R1b", RW.r1b_field_store)
        if cfg.get("compound_index_assign"):
            run("R1c", RW.r1c_compound_index_assign)
        run("R5", RW.r5_debug_assert)
        run("R6", RW.r6_panics)
        if "slice_scrutinee" in cfg:
            run("R3", RW.r3_slice_patterns, cfg["slice_scrutinee"])
        run("R15", RW.r15_const_filter)
        if cfg.get("let_chains"):
            run("R13", RW.r13_let_chains)
        if cfg.get("for_each_child"):
            run("R4", RW.r4_for_each_child)
        run("R2", RW.r2_build)
        run("R10", RW.r10_guards)
        if "into_target" in cfg:
            run("R9", RW.r9_into, cfg["into_target"])
        run("R1", RW.r1_index, cfg.get("receivers", {"ctx": "node"}))
        for a, b in cfg.get("replace", []):
            # explicit, logged, per-function textual substitutions (R1': self.ctx -> ctx etc.)
            n = body.count(a)
            if n:
                body = body.replace(a, b)
                counts["R1'"] = counts.get("R1'", 0) + n
        return body, counts

    def inject(self, body: str, spec: FnSpec) -> str:
        # loop contracts: insert before the `{` of the n-th loop, working from the last loop backwards
        if spec.loops:
            loops = loops_in(body)
            for n in sorted(spec.loops, reverse=True):
                if n < 1 or n > len(loops):
                    raise AnchorError(f"{spec.name}: loop #{n} not found (function has {len(loops)} loops)")
                kw, kpos, bpos = loops[n - 1]
                ls = spec.loops[n]
                txt = "\n"
                if ls.invariant_except_break.strip():
                    txt += "        invariant_except_break\n" + _indent(ls.invariant_except_break, 12)
                if ls.invariant.strip():
                    txt += "        invariant\n" + _indent(ls.invariant, 12)
                if ls.ensures.strip():
                    txt += "        ensures\n" + _indent(ls.ensures, 12)
                if ls.decreases.strip():
                    txt += "        decreases\n" + _indent(ls.decreases, 12)
                body = body[:bpos] + txt + "        " + body[bpos:]
        # `broadcast use` is lexically scoped and loops are verified in isolation: repeat the prefix in every loop body
        if spec.prefix.strip() and "broadcast use" in spec.prefix:
            loops = loops_in(body)
            for kw, kpos, bpos in sorted(loops, key=lambda l: -l[2]):
                # bpos is the position of the loop body's `{` BEFORE contracts were injected; find the `{` again after them
                pass
            T = code_toks(lex(body))
            opens = []
            for kw, kpos, _ in loops_in(body):
                # the loop body is the first `{` at depth 0 after the (possibly injected) invariant/decreases clauses:
                # scan forward from the keyword for the `{` that is followed by the original body; clauses contain no braces
                i = next(k for k, t in enumerate(T) if t.start == kpos)
                depth = 0
                j = i + 1
                while j < len(T):
                    x = T[j]
                    if x.kind == "punct":
                        if x.text in "([":
                            depth += 1
                        elif x.text in ")]":
                            depth -= 1
                        elif x.text == "{" and depth == 0:
                            break
                    j += 1
                opens.append(T[j].end)
            for pos in sorted(opens, reverse=True):
                bu = "\n".join(l for l in spec.prefix.splitlines() if l.strip().startswith("broadcast use"))
                body = body[:pos] + "\n" + _indent(bu, 12) + body[pos:]
        for loop, rx, text in spec.injects:
            at_end = rx.startswith("END:")
            if at_end:
                rx = rx[4:]
            m = re.search(rx, body)
            if not m:
                raise AnchorError(f"{spec.name}: inject anchor /{rx}/ not found")
            pos = m.end()
            if at_end:
                # END:<regex> — the hint goes to the END of the innermost block that contains the match (robust against
                # reordering of the statements of that block)
                depth = 0
                pos = None
                for t in code_toks(lex(body)):
                    if t.start < m.end() or t.kind != "punct":
                        continue
                    if t.text == "{":
                        depth += 1
                    elif t.text == "}":
                        if depth == 0:
                            pos = t.start
                            break
                        depth -= 1
                if pos is None:
                    raise AnchorError(f"{spec.name}: inject anchor /{rx}/: no enclosing block end")
            body = body[:pos] + "\n" + text + body[pos:]
        if spec.prefix.strip():
            assert body.lstrip().startswith("{")
            i = body.index("{")
            body = body[:i + 1] + "\n" + _indent(spec.prefix, 4) + body[i + 1:]
        return body

    def emit_raw(self, path: str, subst: Optional[Dict[str, str]] = None):
        text = open(os.path.join(VERIF, path), encoding="utf-8").read()
        m = re.search(r"//@@OPS-TEMPLATE-BEGIN@@\n(.*?)//@@OPS-TEMPLATE-END@@\n", text, re.S)
        if m:
            body = m.group(1)
            inst = "".join(f"impl{g} {t} {{\n{body}}}\n\n" for g, t in (("", "BitVecValue"), ("<'a>", "BitVecValueRef<'a>")))
            text = text[:m.start()] + inst + text[m.end():]
        for k, v in (subst or {}).items():
            text = text.replace(k, v)
        self.out(f"// @@FILE {path}\n" + text)

    def text(self) -> str:
        return "\n".join(self.lines) + "\n"

    def fn_at_line(self, line: int) -> Optional[Emitted]:
        for e in self.emitted:
            if e.gen_start <= line <= e.gen_end:
                return e
        return None


def carve_block(body: str, token: str, call: str):
    """R8: replace the innermost `{ .. }` block that contains `token` by `{ call }`; returns (new body, sha256 of the carved text)"""
    T = code_toks(lex(body))
    idx = [i for i, t in enumerate(T) if t.kind == "ident" and t.text == token]
    if len(idx) != 1:
        raise AnchorError(f"carve anchor `{token}` occurs {len(idx)} times")
    stack = []
    for i, t in enumerate(T):
        if t.kind == "punct" and t.text == "{":
            stack.append(i)
        elif t.kind == "punct" and t.text == "}":
            o = stack.pop()
            if o < idx[0] < i:
                carved = body[T[o].start:T[i].end]
                return body[:T[o].start] + "{ " + call + " }" + body[T[i].end:], _sha(re.sub(r"\s+", " ", carved))
    raise AnchorError(f"no block around `{token}`")


def carve_if(body: str, token: str, call: str):
    """R8: replace the whole `if COND {..} else {..}` expression whose condition contains `token` by `call`"""
    T = code_toks(lex(body))
    idx = [i for i, t in enumerate(T) if t.kind == "ident" and t.text == token]
    if len(idx) != 1:
        raise AnchorError(f"carve anchor `{token}` occurs {len(idx)} times")
    i = idx[0]
    while i >= 0 and not (T[i].kind == "ident" and T[i].text == "if"):
        i -= 1
    if i < 0:
        raise AnchorError("no `if` before carve anchor")
    j = idx[0]
    while T[j].text != "{":
        j += 1
    e = match_close(T, j)
    while e + 1 < len(T) and T[e + 1].text == "else":
        k = e + 2
        if T[k].text == "if":
            while T[k].text != "{":
                k += 1
        e = match_close(T, k)
    carved = body[T[i].start:T[e].end]
    return body[:T[i].start] + call + body[T[e].end:], _sha(re.sub(r"\s+", " ", carved))


def _indent(t: str, n: int) -> str:
    return "".join(" " * n + l.strip() + "\n" for l in t.strip("\n").split("\n") if l.strip())


def _sha(t: str) -> str:
    return hashlib.sha256(t.encode()).hexdigest()[:16]


def _one(s: str) -> str:
    return re.sub(r"\s+", " ", s).strip()
