"""The closed list of syntactic, meaning-preserving rewrites from real Rust text to the Verus dialect.

Each rule returns (new_text, number_of_applications).  Text that would need a rule not on this list
is left as it is; Verus then rejects it and the driver reports UNDECIDED (exit 2).

  R1   X[K]            -> (*X.node(K))      for context receivers   (Index::index sugar)
       M[K]            -> M.get(K)          for map receivers       (Index::index, value is Copy)
       M[K] = V;       -> M.set(K, V);      for map receivers       (IndexMut::index_mut + store)
  R2   C.build(|c| E)  -> { let t1 = C.f(..); ... C.g(.., t1, ..) } (A-normal form, evaluation order kept)
  R3   (P, [x, y]) =>  -> (P, _) if S.len() == 2 => { let x = &S[0]; let y = &S[1]; .. }
  R5   debug_assert!(E) / debug_assert_eq!(A, B) -> evaluated + `assert(..)` proof obligation
  R6   panic!/unreachable!/todo!(..) -> unreached()            (must be proved dead)
       .expect("..")                  -> .unwrap()              (vstd: requires is_some / is_ok)
  R7   SmallVec<[T; N]> -> Vec<T>, smallvec![] -> Vec::new()
  R9   `X.into()` where the spec file names the target type T -> T::from(X)   (std blanket impl Into)
"""
from __future__ import annotations
import re
from typing import Dict, List, Tuple
from .lexer import Tok, lex, code_toks, match_close, split_top_level


class RewriteError(Exception):
    pass


def _apply(text: str, edits: List[Tuple[int, int, str]]) -> str:
    edits = sorted(edits, key=lambda e: e[0])
    out, last = [], 0
    for s, e, r in edits:
        if s < last:
            raise RewriteError("overlapping edits")
        out.append(text[last:s]); out.append(r); last = e
    out.append(text[last:])
    return "".join(out)


def _fix(text: str, step) -> Tuple[str, int]:
    """apply `step` (text -> (text, n) doing at most the outermost/non-overlapping edits) until no change."""
    total = 0
    for _ in range(200):
        text2, n = step(text)
        total += n
        if n == 0:
            return text2, total
        text = text2
    raise RewriteError("rewrite did not converge")


# --------------------------------------------------------------------------------------- R1
def r1_index(text: str, receivers: Dict[str, str]) -> Tuple[str, int]:
    """receivers: name -> 'node' | 'map' | 'str' ; `self.f` style receivers are written 'self.f'."""
    def step(text):
        T = code_toks(lex(text))
        edits = []
        i = 0
        last_end = -1
        while i < len(T):
            t = T[i]
            # receiver = ident or self.ident
            recv = None
            if t.kind == "ident" and i + 1 < len(T) and T[i + 1].text == "[" and T[i + 1].start == t.end:
                name = t.text
                rs = i
                if i >= 2 and T[i - 1].text == "." and T[i - 2].text == "self":
                    name = "self." + t.text
                    rs = i - 2
                elif i >= 1 and T[i - 1].text in (".", "::"):
                    name = None
                if name in receivers:
                    recv = (name, rs)
            if recv and T[recv[1]].start >= last_end:
                name, rs = recv
                ob = i + 1
                cb = match_close(T, ob)
                inner = text[T[ob].end:T[cb].start]
                kind = receivers[name]
                # assignment form?
                nxt = T[cb + 1] if cb + 1 < len(T) else None
                if kind == "map" and nxt is not None and nxt.text == "=":
                    # value up to `;` at depth 0
                    j = cb + 2
                    depth = 0
                    while j < len(T):
                        x = T[j]
                        if x.kind == "punct":
                            if x.text in "([{":
                                depth += 1
                            elif x.text in ")]}":
                                depth -= 1
                            elif x.text == ";" and depth == 0:
                                break
                        j += 1
                    val = text[T[cb + 2].start:T[j - 1].end]
                    edits.append((T[rs].start, T[j - 1].end, f"{name}.set({inner}, {val})"))
                    last_end = T[j - 1].end
                    i = j
                    continue
                if kind == "node":
                    rep = f"(*{name}.node({inner}))"
                elif kind == "node_raw":
                    rep = f"(*{name}.node_raw({inner}))"
                elif kind == "str":
                    rep = f"(*{name}.str_at({inner}))"
                elif kind == "map":
                    rep = f"{name}.get({inner})"
                else:
                    raise RewriteError(kind)
                edits.append((T[rs].start, T[cb].end, rep))
                last_end = T[cb].end
                i = cb + 1
                continue
            i += 1
        return _apply(text, edits), len(edits)
    return _fix(text, step)


# --------------------------------------------------------------------------------------- R1b
def r1b_field_store(text: str) -> Tuple[str, int]:
    """`v[i].f = x;`  ->  `{ let mut t__ = v[i].clone(); t__.f = x; v.set(i, t__); }`   (IndexMut on a Vec of structs + field store)"""
    n = 0
    def sub(m):
        nonlocal n
        n += 1
        v, i, f, x = m.group(1), m.group(2), m.group(3), m.group(4)
        return f"{{ let mut t__ = {v}[{i}].clone(); t__.{f} = {x}; {v}.set({i}, t__); }}"
    text = re.sub(r"\b([a-z_][A-Za-z0-9_]*)\[([a-z_][A-Za-z0-9_]*)\]\.([a-z_][A-Za-z0-9_]*) = ([^;]+);", sub, text)
    return text, n


def r1c_compound_index_assign(text: str) -> Tuple[str, int]:
    """`X[i] OP= E;`  ->  `{ let t__ = X[i] OP (E); X.set(i, t__); }`  for OP in | & (IndexMut + compound assignment on a Vec)"""
    n = 0
    def sub(m):
        nonlocal n
        n += 1
        x, i, op, e = m.group(1), m.group(2), m.group(3), m.group(4)
        return f"{{ let t__ = {x}[{i}] {op} ({e}); {x}.set({i}, t__); }}"
    text = re.sub(r"\b((?:self\.)?[a-z_][A-Za-z0-9_]*)\[([a-z_][A-Za-z0-9_]*)\] ([|&])= ([^;]+);", sub, text)
    return text, n


# --------------------------------------------------------------------------------------- R2
def _anf(text: str, toks: List[Tok], cvar: str, ctx: str, counter: List[int], lets: List[str]) -> str:
    """toks: code tokens of one expression.  Returns the atom text that stands for it."""
    # call on the builder variable?  c . name ( args )
    if len(toks) >= 4 and toks[0].text == cvar and toks[1].text == "." and toks[3].text == "(":
        cb = match_close(toks, 3)
        if cb == len(toks) - 1:
            name = toks[2].text
            args = split_top_level(toks[4:cb], ",")
            atoms = [_anf(text, a, cvar, ctx, counter, lets) for a in args]
            counter[0] += 1
            v = f"t__{counter[0]}"
            lets.append(f"let {v} = {ctx}.{name}({', '.join(atoms)});")
            return v
    # anything else must not mention the builder variable
    for t in toks:
        if t.kind == "ident" and t.text == cvar:
            raise RewriteError(f"builder closure too complex: {text[toks[0].start:toks[-1].end]}")
    return text[toks[0].start:toks[-1].end]


def r2_build(text: str, ctx_names=("ctx", "self")) -> Tuple[str, int]:
    def step(text):
        T = code_toks(lex(text))
        for i, t in enumerate(T):
            if (t.kind == "ident" and t.text in ctx_names and i + 5 < len(T) and T[i + 1].text == "."
                    and T[i + 2].text == "build" and T[i + 3].text == "(" and T[i + 4].text == "|"):
                cb = match_close(T, i + 3)
                cvar = T[i + 5].text
                if T[i + 6].text != "|":
                    raise RewriteError("build closure with unexpected parameters")
                expr = T[i + 7:cb]
                counter = [0]
                lets: List[str] = []
                atom = _anf(text, expr, cvar, t.text, counter, lets)
                # last let is the result
                last = lets.pop()
                m = re.match(r"let t__\d+ = (.*);$", last, re.S)
                rep = "{ " + " ".join(lets) + " " + m.group(1) + " }"
                return _apply(text, [(t.start, T[cb].end, rep)]), 1
        return text, 0
    return _fix(text, step)


# --------------------------------------------------------------------------------------- R3
def r3_slice_patterns(text: str, scrutinee: str) -> Tuple[str, int]:
    """`(PAT, [a, b]) => BODY` -> `(PAT, _) if scrutinee.len() == 2 => { let a = &scrutinee[0]; ...; BODY }`"""
    def step(text):
        T = code_toks(lex(text))
        for i, t in enumerate(T):
            if t.text == "[" and i > 0 and T[i - 1].text == ",":
                cb0 = match_close(T, i)
                cb = cb0
                if cb + 1 < len(T) and T[cb + 1].text == ",":
                    cb += 1          # trailing comma inside the tuple pattern
                if cb + 2 < len(T) and T[cb + 1].text == ")" and T[cb + 2].text == "=>":
                    names = [x for x in T[i + 1:cb0] if x.text != ","]
                    if not all(x.kind == "ident" for x in names):
                        raise RewriteError("unsupported slice pattern")
                    n = len(names)
                    lets = " ".join(f"let {x.text} = &{scrutinee}[{k}];" for k, x in enumerate(names))
                    b = cb + 3
                    edits = [(t.start, T[cb].end, "_"),
                             (T[cb + 1].end, T[cb + 2].start, f" if {scrutinee}.len() == {n} ")]
                    if T[b].text == "{":
                        edits.append((T[b].end, T[b].end, " " + lets))
                    else:
                        depth = 0
                        e = b
                        while e < len(T):
                            x = T[e]
                            if x.kind == "punct":
                                if x.text in "([{":
                                    depth += 1
                                elif x.text in ")]}":
                                    if depth == 0:
                                        break
                                    depth -= 1
                                elif x.text == "," and depth == 0:
                                    break
                            e += 1
                        edits.append((T[b].start, T[b].start, "{ " + lets + " "))
                        edits.append((T[e - 1].end, T[e - 1].end, " }"))
                    return _apply(text, edits), 1
        return text, 0
    return _fix(text, step)


# --------------------------------------------------------------------------------------- R5
def r5_debug_assert(text: str) -> Tuple[str, int]:
    def step(text):
        T = code_toks(lex(text))
        for i, t in enumerate(T):
            if t.kind == "ident" and t.text in ("debug_assert", "debug_assert_eq", "debug_assert_ne") \
                    and i + 2 < len(T) and T[i + 1].text == "!" and T[i + 2].text == "(":
                cb = match_close(T, i + 2)
                args = split_top_level(T[i + 3:cb], ",")
                end = T[cb].end
                if cb + 1 < len(T) and T[cb + 1].text == ";":
                    end = T[cb + 1].end
                def tx(a):
                    return text[a[0].start:a[-1].end]
                if t.text == "debug_assert":
                    rep = "if true { let dbg__c = " + tx(args[0]) + "; assert(dbg__c); }"
                else:
                    op = "==" if t.text == "debug_assert_eq" else "!="
                    rep = "if true { let dbg__l = " + tx(args[0]) + "; let dbg__r = " + tx(args[1]) + f"; assert(dbg__l {op} dbg__r); }}"
                return _apply(text, [(t.start, end, rep)]), 1
        return text, 0
    return _fix(text, step)


# --------------------------------------------------------------------------------------- R6
def r6_panics(text: str) -> Tuple[str, int]:
    def step(text):
        T = code_toks(lex(text))
        edits = []
        for i, t in enumerate(T):
            # `.unwrap_or_else(|| panic!(..))` panics exactly when `.unwrap()` does
            if t.kind == "ident" and t.text == "unwrap_or_else" and i > 0 and T[i - 1].text == "." and T[i + 1].text == "(" \
                    and T[i + 2].text == "||" and T[i + 3].text == "panic" and T[i + 4].text == "!":
                cb = match_close(T, i + 1)
                edits.append((t.start, T[cb].end, "unwrap()"))
                continue
            if t.kind == "ident" and t.text in ("panic", "unreachable", "todo", "unimplemented") \
                    and i + 2 < len(T) and T[i + 1].text == "!" and T[i + 2].text in "([{":
                cb = match_close(T, i + 2)
                # in statement position (`panic!(..);`) the result type cannot be inferred: it is ()
                stmt = cb + 1 < len(T) and T[cb + 1].text == ";"
                edits.append((t.start, T[cb].end, "unreached::<()>()" if stmt else "unreached()"))
            if t.kind == "ident" and t.text == "expect" and i > 0 and T[i - 1].text == "." and T[i + 1].text == "(":
                cb = match_close(T, i + 1)
                edits.append((t.start, T[cb].end, "unwrap()"))
        # drop nested edits (keep outermost)
        edits.sort()
        keep, last = [], -1
        for e in edits:
            if e[0] >= last:
                keep.append(e); last = e[1]
        return _apply(text, keep), len(keep)
    return _fix(text, step)


# --------------------------------------------------------------------------------------- R7
def r7_smallvec(text: str) -> Tuple[str, int]:
    n = 0
    def sub1(m):
        nonlocal n
        n += 1
        return f"Vec<{m.group(1).strip()}>"
    text = re.sub(r"SmallVec<\[\s*([^;\]]+);\s*\d+\s*\]>", sub1, text)
    def sub2(m):
        nonlocal n
        n += 1
        return "Vec::new()"
    text = re.sub(r"smallvec!\[\s*\]", sub2, text)
    return text, n


# --------------------------------------------------------------------------------------- R9
def r9_into(text: str, target: str) -> Tuple[str, int]:
    """`RECV.into()` -> `T::from(RECV)` where RECV is a postfix chain (ident, field, call, paren group);
    this is the blanket `impl<T, U: From<T>> Into<U> for T` of std spelled out for the target type named in the unit."""
    def step(text):
        T = code_toks(lex(text))
        for i in range(len(T) - 3):
            if T[i].text == "." and T[i + 1].text == "into" and T[i + 2].text == "(" and T[i + 3].text == ")":
                j = i - 1
                while j >= 0:
                    t = T[j]
                    if t.kind == "punct" and t.text in ")]":
                        # find matching open
                        depth = 0
                        k = j
                        while k >= 0:
                            if T[k].kind == "punct" and T[k].text in ")]":
                                depth += 1
                            elif T[k].kind == "punct" and T[k].text in "([":
                                depth -= 1
                                if depth == 0:
                                    break
                            k -= 1
                        j = k - 1
                        if j >= 0 and T[j].kind == "ident" and T[j].text not in ("if", "match", "while", "return", "in"):
                            j -= 1
                        elif T[k].text == "(":
                            # a parenthesised group `( .. )` stands alone; an operator such as `!` may precede it inside
                            j = k - 1
                            break
                        else:
                            break
                    elif t.kind in ("ident", "num"):
                        j -= 1
                    else:
                        break
                    if j >= 0 and T[j].text in (".", "::"):
                        j -= 1
                        continue
                    break
                start = T[j + 1].start
                recv = text[start:T[i].start]
                return _apply(text, [(start, T[i + 3].end, f"{target}::from({recv})")]), 1
        return text, 0
    return _fix(text, step)


# --------------------------------------------------------------------------------------- misc
def strip_attrs_and_doc(text: str) -> str:
    """remove `#[...]` attributes and doc comments inside an extracted item (they carry no semantics we verify)"""
    toks = lex(text)
    T = [t for t in toks]
    edits = []
    i = 0
    while i < len(T):
        t = T[i]
        if t.kind == "comment" and (t.text.startswith("///") or t.text.startswith("//!")):
            edits.append((t.start, t.end, ""))
        if t.kind == "punct" and t.text == "#":
            j = i + 1
            while j < len(T) and T[j].kind in ("ws", "comment"):
                j += 1
            if j < len(T) and T[j].text == "[":
                # find matching ]
                depth = 0
                k = j
                while k < len(T):
                    if T[k].kind == "punct" and T[k].text == "[":
                        depth += 1
                    elif T[k].kind == "punct" and T[k].text == "]":
                        depth -= 1
                        if depth == 0:
                            break
                    k += 1
                edits.append((t.start, T[k].end, ""))
                i = k
        i += 1
    return _apply(text, edits)


# --------------------------------------------------------------------------------------- R10
# Verus 0.2026.09.13 cannot relate final(x) to the state after an arm when the arm has a guard and mutates
# through a `&mut` parameter (minimal repro kept in DESIGN.md).  Guards are therefore eliminated by case split:
#
#     match S { .., P if G => B, REST }   ==>   match S { .., P => if G { B } else { match S { REST' } }, REST }
#
# where REST' are the arms of REST whose pattern is not syntactically disjoint from P (different enum-variant
# constructors in the same tuple slot).  Sound because S is re-evaluated only when it is pure (checked: it consists of
# identifiers, `&`, `*`, tuples, field/`.node(..)`/`.clone()` accesses) and arms disjoint from P cannot match a value that
# matched P.
def _pat_components(p: str) -> List[str]:
    p = p.strip()
    T = code_toks(lex(p))
    if T and T[0].text == "(" and match_close(T, 0) == len(T) - 1:
        parts = split_top_level(T[1:-1], ",")
        return [p[x[0].start:x[-1].end] for x in parts if x]
    return [p]


def _ctor(p: str):
    """constructor path of a pattern component (`Expr::BVNot(..)`, `&Expr::X { .. }`, `Lits::None`), or None"""
    m = re.match(r"^\s*&?\s*((?:[A-Za-z_][A-Za-z0-9_]*::)+[A-Za-z_][A-Za-z0-9_]*)\s*(\(|\{|$)", p)
    return m.group(1) if m else None


def _disjoint(p1: str, p2: str) -> bool:
    c1, c2 = _pat_components(p1), _pat_components(p2)
    if len(c1) != len(c2):
        return False
    for a, b in zip(c1, c2):
        ka, kb = _ctor(a), _ctor(b)
        if ka and kb and ka != kb:
            return True
        # string / integer literal patterns
        if re.match(r'^b?"', a.strip()) and re.match(r'^b?"', b.strip()) and a.strip() != b.strip():
            return True
    return False


_PURE_CALLS = {"node", "clone", "len", "as_str", "as_ref"}


def _pure_scrutinee(s: str) -> bool:
    T = code_toks(lex(s))
    for i, t in enumerate(T):
        if t.kind == "ident" and i + 1 < len(T) and T[i + 1].text == "(":
            if t.text not in _PURE_CALLS:
                return False
        if t.text in ("mut", "=", "{"):
            return False
    return True


def r10_guards(text: str) -> Tuple[str, int]:
    from .extract import match_arms
    def step(text):
        T = code_toks(lex(text))
        for i, t in enumerate(T):
            if not (t.kind == "ident" and t.text == "match"):
                continue
            j = i + 1
            depth = 0
            while j < len(T):
                x = T[j]
                if x.kind == "punct":
                    if x.text in "([":
                        depth += 1
                    elif x.text in ")]":
                        depth -= 1
                    elif x.text == "{" and depth == 0:
                        break
                j += 1
            scrut = text[T[i + 1].start:T[j - 1].end]
            arms = match_arms(text, T[j].start)
            guarded = [k for k, a in enumerate(arms) if a.guard is not None]
            if not guarded:
                continue
            if not _pure_scrutinee(scrut):
                raise RewriteError(f"match guard on impure scrutinee `{scrut}`")
            k = guarded[-1]
            arm = arms[k]
            rest = [a for a in arms[k + 1:] if not _disjoint(arm.pat, a.pat)]
            if not rest:
                raise RewriteError("guarded arm without fall-through target")
            if len(rest) == 1 and rest[0].pat.strip() in ("_", "(_, _)", "(_, _, _)") and rest[0].guard is None:
                fall = rest[0].body if rest[0].body.lstrip().startswith("{") else "{ " + rest[0].body + " }"
            else:
                fall = "{ match " + scrut + " { " + " ".join(f"{a.pat} => {a.body}," for a in rest) + " } }"
            body = arm.body if arm.body.lstrip().startswith("{") else "{ " + arm.body + " }"
            new_arm = f"{arm.pat} => if {arm.guard} {body} else {fall},"
            return text[:arm.start] + new_arm + text[arm.end:], 1
        return text, 0
    return _fix(text, step)


# --------------------------------------------------------------------------------------- R4
def r4_for_each_child(text: str) -> Tuple[str, int]:
    """`X.for_each_child(|c| BODY);`  ->  `{ let kids__N = X.children_vec(); let mut i__N = 0; while i__N < kids__N.len() { let c = &kids__N[i__N]; BODY i__N += 1; } }`
    justified by the contract of for_each_child (unit eval_arms: visits exactly kids(node), in order)."""
    counter = [0]
    def step(text):
        T = code_toks(lex(text))
        for i, t in enumerate(T):
            if t.kind == "ident" and t.text == "for_each_child" and i > 1 and T[i - 1].text == "." and T[i + 1].text == "(" and T[i + 2].text == "|":
                cb = match_close(T, i + 1)
                # receiver: postfix chain before the dot
                j = i - 2
                while j >= 0:
                    x = T[j]
                    if x.kind == "punct" and x.text in ")]":
                        d = 0
                        k = j
                        while k >= 0:
                            if T[k].text in ")]":
                                d += 1
                            elif T[k].text in "([":
                                d -= 1
                                if d == 0:
                                    break
                            k -= 1
                        j = k - 1
                        if j >= 0 and T[j].kind == "ident":
                            j -= 1
                    elif x.kind == "ident":
                        j -= 1
                    else:
                        break
                    if j >= 0 and T[j].text in (".", "::"):
                        j -= 1
                        continue
                    break
                recv = text[T[j + 1].start:T[i - 1].start]
                cvar = T[i + 3].text
                if T[i + 4].text != "|":
                    raise RewriteError("for_each_child closure with unexpected parameters")
                body = text[T[i + 5].start:T[cb - 1].end]
                if body.strip().startswith("{"):
                    body = body.strip()[1:-1]
                counter[0] += 1
                n = counter[0]
                end = T[cb].end
                if cb + 1 < len(T) and T[cb + 1].text == ";":
                    end = T[cb + 1].end
                rep = (f"{{ let kids__{n} = {recv}.children_vec(); let mut i__{n}: usize = 0; while i__{n} < kids__{n}.len() /*@@R4-LOOP@@*/ {{ "
                       f"let {cvar} = &kids__{n}[i__{n}]; {body} i__{n} += 1; }} }}")
                return _apply(text, [(T[j + 1].start, end, rep)]), 1
        return text, 0
    return _fix(text, step)


# --------------------------------------------------------------------------------------- R13
def r13_let_chains(text: str) -> Tuple[str, int]:
    """`if A && let P = E && B { BODY }` (no else)  ->  `if A { if let P = E { if B { BODY } } }`"""
    def step(text):
        T = code_toks(lex(text))
        for i, t in enumerate(T):
            if not (t.kind == "ident" and t.text == "if"):
                continue
            # condition up to the body `{` at depth 0
            j = i + 1
            depth = 0
            while j < len(T):
                x = T[j]
                if x.kind == "punct":
                    if x.text in "([":
                        depth += 1
                    elif x.text in ")]":
                        depth -= 1
                    elif x.text == "{" and depth == 0:
                        break
                j += 1
            cond = T[i + 1:j]
            parts = split_top_level(cond, "&&")
            if len(parts) < 2 or not any(p and p[0].text == "let" for p in parts):
                continue
            if len(parts) == 1:
                continue
            e = match_close(T, j)
            if e + 1 < len(T) and T[e + 1].text == "else":
                raise RewriteError("let-chain with else branch")
            body = text[T[j].start:T[e].end]
            conds = [text[p[0].start:p[-1].end] for p in parts]
            new = body
            for c in reversed(conds):
                new = f"{{ if {c} {new} }}"
            new = new[2:-2]   # strip the outermost added braces
            return _apply(text, [(t.start, T[e].end, new)]), 1
        return text, 0
    return _fix(text, step)


# --------------------------------------------------------------------------------------- R15
def _recv_start(T, i):
    """index of the first token of the postfix chain that ends right before T[i] (a `.`)"""
    j = i - 1
    while j >= 0:
        t = T[j]
        if t.kind == "punct" and t.text in ")]":
            depth = 0
            k = j
            while k >= 0:
                if T[k].kind == "punct" and T[k].text in ")]":
                    depth += 1
                elif T[k].kind == "punct" and T[k].text in "([":
                    depth -= 1
                    if depth == 0:
                        break
                k -= 1
            j = k - 1
            if j >= 0 and T[j].kind == "ident" and T[j].text not in ("if", "match", "while", "return", "in"):
                j -= 1
            else:
                break
        elif t.kind in ("ident", "num"):
            j -= 1
        else:
            break
        if j >= 0 and T[j].text in (".", "::"):
            j -= 1
            continue
        break
    return j + 1


def r15_const_filter(text: str) -> Tuple[str, int]:
    """`OPT.filter(|_| FLAG)` with FLAG a plain identifier  ->  `(if FLAG { OPT } else { None })`
    (Option::filter with a predicate that ignores its argument keeps the value iff the predicate, a pure flag, is true)"""
    def step(text):
        T = code_toks(lex(text))
        for i in range(len(T) - 7):
            if (T[i].text == "." and T[i + 1].text == "filter" and T[i + 2].text == "(" and T[i + 3].text == "|" and T[i + 4].text == "_"
                    and T[i + 5].text == "|" and T[i + 6].kind == "ident" and T[i + 7].text == ")"):
                s = _recv_start(T, i)
                recv = text[T[s].start:T[i].start]
                flag = T[i + 6].text
                return _apply(text, [(T[s].start, T[i + 7].end, f"(if {flag} {{ {recv} }} else {{ None }})")]), 1
        return text, 0
    return _fix(text, step)
