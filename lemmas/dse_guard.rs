// ======================================================================================
// lemmas/dse_guard.rs — proved lemmas for unit dse_guard (nothing here is assumed)
// ======================================================================================

/// one of the first n entries applies under x and its (boolean) value holds there
pub open spec fn some_hit_holds<V: Value>(gc: &GuardCtx, s: Seq<Entry<V>>, x: int, n: int) -> bool {
    exists|k: int| 0 <= k < n && #[trigger] hit(gc, s, x, k) && s[k].value.holds(x)
}

pub proof fn lemma_some_hit_step<V: Value>(gc: &GuardCtx, s: Seq<Entry<V>>, x: int, n: int)
    requires 0 <= n < s.len(),
    ensures some_hit_holds(gc, s, x, n + 1) == (some_hit_holds(gc, s, x, n) || (gc.holds(s[n].guard, x) && s[n].value.holds(x))),
{
    if some_hit_holds(gc, s, x, n + 1) {
        let k = choose|k: int| 0 <= k < n + 1 && #[trigger] hit(gc, s, x, k) && s[k].value.holds(x);
        if k < n { assert(hit(gc, s, x, k)); }
    }
    if some_hit_holds(gc, s, x, n) {
        let k = choose|k: int| 0 <= k < n && #[trigger] hit(gc, s, x, k) && s[k].value.holds(x);
        assert(hit(gc, s, x, k) && 0 <= k < n + 1);
    }
    if gc.holds(s[n].guard, x) && s[n].value.holds(x) { assert(hit(gc, s, x, n)); }
}

/// for a total summary, "some applying entry holds" is the value of the summary
pub proof fn lemma_some_hit_final<V: Value>(gc: &GuardCtx, s: Seq<Entry<V>>, x: int)
    requires partition(gc, s),
    ensures some_hit_holds(gc, s, x, s.len() as int) == sval(gc, s, x),
{
    let p = pick(gc, s, x);
    assert(hit(gc, s, x, p));
    if some_hit_holds(gc, s, x, s.len() as int) {
        let k = choose|k: int| 0 <= k < s.len() && #[trigger] hit(gc, s, x, k) && s[k].value.holds(x);
        assert(k == p);
    }
}

/// a summary with one entry whose guard always holds is total
pub broadcast proof fn lemma_single_partition<V: Value>(gc: &GuardCtx, s: Seq<Entry<V>>)
    requires s.len() == 1, forall|x: int| #[trigger] gc.holds(s[0].guard, x),
    ensures #[trigger] partition(gc, s), forall|x: int| #[trigger] pick(gc, s, x) == 0,
            forall|x: int| #[trigger] sval(gc, s, x) == s[0].value.holds(x),
{
    let w = |x: int| 0int;
    assert forall|x: int| #![trigger w(x)] hit(gc, s, x, w(x)) by { assert(gc.holds(s[0].guard, x)); }
    lemma_selects_partition(gc, s, w);
}

/// two entries guarded by a guard and its complement form a total summary
pub broadcast proof fn lemma_two_partition<V: Value>(gc: &GuardCtx, s: Seq<Entry<V>>)
    requires s.len() == 2, forall|x: int| #[trigger] gc.holds(s[0].guard, x) == !gc.holds(s[1].guard, x),
    ensures #[trigger] partition(gc, s), forall|x: int| #[trigger] pick(gc, s, x) == (if gc.holds(s[1].guard, x) { 1int } else { 0int }),
            forall|x: int| #[trigger] sval(gc, s, x) == (if gc.holds(s[1].guard, x) { s[1].value.holds(x) } else { s[0].value.holds(x) }),
{
    let w = |x: int| if gc.holds(s[1].guard, x) { 1int } else { 0int };
    assert forall|x: int| #![trigger w(x)] hit(gc, s, x, w(x)) by { assert(gc.holds(s[0].guard, x) == !gc.holds(s[1].guard, x)); }
    assert forall|x: int, j: int| #[trigger] hit(gc, s, x, j) implies j == w(x) by { assert(gc.holds(s[0].guard, x) == !gc.holds(s[1].guard, x)); }
    lemma_selects_partition(gc, s, w);
}

/// creating BDD nodes does not change the summaries that exist
pub proof fn lemma_partition_extends<V: Value>(gc0: &GuardCtx, gc: &GuardCtx, s: Seq<Entry<V>>)
    requires gc.extends(gc0), all_known(gc0, s), partition(gc0, s),
    ensures partition(gc, s), all_known(gc, s), forall|x: int| #[trigger] pick(gc, s, x) == pick(gc0, s, x),
{
    let w = |x: int| pick(gc0, s, x);
    assert forall|x: int| #![trigger w(x)] hit(gc, s, x, w(x)) by {
        let p = pick(gc0, s, x);
        assert(hit(gc0, s, x, p));
        assert(gc0.known(s[p].guard));
    }
    assert forall|x: int, j: int| #[trigger] hit(gc, s, x, j) implies j == w(x) by {
        assert(gc0.known(s[j].guard));
        assert(hit(gc0, s, x, j));
        let p = pick(gc0, s, x);
        assert(hit(gc0, s, x, p));
    }
    lemma_selects_partition(gc, s, w);
    assert forall|k: int| 0 <= k < s.len() implies gc.known(#[trigger] s[k].guard) by { assert(gc0.known(s[k].guard)); }
}
