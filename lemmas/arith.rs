// ======================================================================================
// lemmas/arith.rs — PROVED facts about pow2i / v_fits (no admit).
// ======================================================================================
pub proof fn lemma_pow2i_pos(k: int)
    ensures pow2i(k) >= 1,
    decreases k,
{
    if k > 0 { lemma_pow2i_pos(k - 1); }
}

pub proof fn lemma_lt_pow2i(k: int)
    requires k >= 0,
    ensures k < pow2i(k),
    decreases k,
{
    if k > 0 { lemma_lt_pow2i(k - 1); }
}

pub proof fn lemma_pow2i_mono(a: int, b: int)
    requires a <= b,
    ensures pow2i(a) <= pow2i(b),
    decreases b - a,
{
    lemma_pow2i_pos(a);
    if a < b {
        lemma_pow2i_mono(a, b - 1);
        lemma_pow2i_pos(b - 1);
        if b - 1 <= 0 && b > 0 { assert(pow2i(b) == 2 * pow2i(b - 1)); }
    }
}

/// a number smaller than the width fits the width
pub broadcast proof fn lemma_small_fits(w: int, k: int)
    requires 0 <= k < w,
    ensures #[trigger] v_fits(w, k),
{
    lemma_lt_pow2i(k);
    lemma_pow2i_mono(k, w);
}

/// 1-bit values are 0 or 1; 0 and 1 fit every positive width
pub broadcast proof fn lemma_fits_1(v: int)
    requires #[trigger] v_fits(1, v),
    ensures v == 0 || v == 1,
{
    assert(pow2i(1) == 2 * pow2i(0));
}

pub broadcast proof fn lemma_fits_0_1(w: int)
    requires w >= 1,
    ensures #[trigger] v_fits(w, 0), v_fits(w, 1),
{
    lemma_small_fits(w, 0);
    lemma_pow2i_mono(1, w);
    assert(pow2i(1) == 2 * pow2i(0));
}

pub broadcast proof fn lemma_fits_one(w: int)
    requires w >= 1,
    ensures #[trigger] v_fits(w, 1),
{
    lemma_fits_0_1(w);
}

pub broadcast proof fn lemma_ones_fits(w: int)
    requires w >= 1,
    ensures v_fits(w, #[trigger] v_ones(w)), v_ones(w) >= 1,
{
    lemma_pow2i_mono(1, w);
    assert(pow2i(1) == 2 * pow2i(0));
}

pub broadcast group group_arith {
    lemma_small_fits,
    lemma_fits_1,
    lemma_fits_0_1,
    lemma_ones_fits,
}
