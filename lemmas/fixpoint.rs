// ======================================================================================
// lemmas/fixpoint.rs — PROVED lemmas about `fix` used by get_fixed_point's path compression (no admit)
// ======================================================================================

/// the fixed point reached from k is a self loop and is not above k in rank; strictly below unless k is the fixed point
pub proof fn lemma_fix_lands(c: Chain, rho: Rank, k: ExprRef)
    requires ranked(c, rho), fix(c, rho, k) is Some,
    ensures c(fix(c, rho, k)->Some_0) == Some(fix(c, rho, k)->Some_0),
            fix(c, rho, k)->Some_0 != k ==> rho(fix(c, rho, k)->Some_0) < rho(k),
    decreases rho(k),
{
    let v = c(k)->Some_0;
    if v != k {
        lemma_fix_lands(c, rho, v);
    }
}

/// re-pointing a key on a chain directly to that chain's fixed point keeps the map ranked and changes no answer
pub proof fn lemma_compress_preserves(c: Chain, c2: Chain, rho: Rank, key: ExprRef, f: ExprRef, k: ExprRef)
    requires
        ranked(c, rho),
        fix(c, rho, key) == Some(f),
        key != f,
        forall|x: ExprRef| #[trigger] c2(x) == (if x == key { Some(f) } else { c(x) }),
    ensures
        ranked(c2, rho),
        fix(c2, rho, k) == fix(c, rho, k),
    decreases rho(k),
{
    lemma_fix_lands(c, rho, key);
    assert(ranked(c2, rho)) by {
        assert forall|x: ExprRef| match #[trigger] c2(x) { Some(v) => v != x ==> rho(v) < rho(x), None => true } by {
            if x == key { } else { assert(c2(x) == c(x)); }
        }
    }
    if k == key {
        // c2(key) = Some(f), f is a self loop in c and f != key, so it is a self loop in c2
        assert(c2(f) == c(f));
        assert(fix(c2, rho, f) == Some(f));
    } else {
        match c(k) {
            None => {},
            Some(v) => {
                if v != k && rho(v) < rho(k) {
                    lemma_compress_preserves(c, c2, rho, key, f, v);
                }
            }
        }
    }
}

pub proof fn lemma_compress_preserves_all(c: Chain, c2: Chain, rho: Rank, key: ExprRef, f: ExprRef)
    requires
        ranked(c, rho),
        fix(c, rho, key) == Some(f),
        key != f,
        forall|x: ExprRef| #[trigger] c2(x) == (if x == key { Some(f) } else { c(x) }),
    ensures
        ranked(c2, rho),
        forall|k: ExprRef| #[trigger] fix(c2, rho, k) == fix(c, rho, k),
{
    lemma_compress_preserves(c, c2, rho, key, f, key);
    assert forall|k: ExprRef| #[trigger] fix(c2, rho, k) == fix(c, rho, k) by {
        lemma_compress_preserves(c, c2, rho, key, f, k);
    }
}
