// lemmas of unit dse_coalesce (all proved): what `keep` keeps, and why coalescing keeps a summary a total function

/// the positions below n that are not deleted, in order
pub open spec fn keep_idx(n: int, del: Set<int>) -> Seq<int>
    decreases n,
{
    if n <= 0 { Seq::empty() } else {
        let front = keep_idx(n - 1, del);
        if del.contains(n - 1) { front } else { front.push(n - 1) }
    }
}

/// keep_idx lists exactly the live positions, strictly increasing
pub proof fn lemma_keep_idx(n: int, del: Set<int>)
    requires n >= 0,
    ensures forall|j: int| 0 <= j < keep_idx(n, del).len() ==> 0 <= #[trigger] keep_idx(n, del)[j] < n && !del.contains(keep_idx(n, del)[j]),
            forall|i: int, j: int| 0 <= i < j < keep_idx(n, del).len() ==> keep_idx(n, del)[i] < keep_idx(n, del)[j],
            forall|k: int| 0 <= k < n && !del.contains(k) ==> #[trigger] keep_idx(n, del).contains(k),
    decreases n,
{
    if n > 0 {
        lemma_keep_idx(n - 1, del);
        let front = keep_idx(n - 1, del);
        let cur = keep_idx(n, del);
        if !del.contains(n - 1) {
            assert(cur == front.push(n - 1));
            assert forall|k: int| 0 <= k < n && !del.contains(k) implies #[trigger] cur.contains(k) by {
                if k == n - 1 { assert(cur[front.len() as int] == k); }
                else { assert(front.contains(k)); let j = choose|j: int| 0 <= j < front.len() && front[j] == k; assert(cur[j] == k); }
            }
        }
    }
}

/// keep(s, del)[j] is the element of s at the j-th live position
pub proof fn lemma_keep_is_map<T>(s: Seq<T>, del: Set<int>)
    ensures keep(s, del).len() == keep_idx(s.len() as int, del).len(),
            forall|j: int| 0 <= j < keep(s, del).len() ==> #[trigger] keep(s, del)[j] == s[keep_idx(s.len() as int, del)[j]],
    decreases s.len(),
{
    if s.len() > 0 {
        lemma_keep_is_map(s.drop_last(), del);
        lemma_keep_idx(s.len() as int - 1, del);
        let front = keep(s.drop_last(), del);
        let fi = keep_idx(s.len() as int - 1, del);
        assert forall|j: int| 0 <= j < keep(s, del).len() implies #[trigger] keep(s, del)[j] == s[keep_idx(s.len() as int, del)[j]] by {
            if j < front.len() {
                assert(front[j] == s.drop_last()[fi[j]]);
            }
        }
    }
}

/// deleting dead entries keeps the summary a total function with the same values: if `w` selects, for every valuation,
/// THE live entry of e that applies, then the kept sequence has exactly one applicable entry per valuation, with that value
pub proof fn lemma_keep_selects<V: Value>(gc: &GuardCtx, e: Seq<Entry<V>>, del: Set<int>, w: spec_fn(int) -> int)
    requires forall|x: int| 0 <= #[trigger] w(x) < e.len() && !del.contains(w(x)) && gc.holds(e[w(x)].guard, x),
             forall|x: int, j: int| #[trigger] hit(gc, e, x, j) && !del.contains(j) ==> j == w(x),
    ensures partition(gc, keep(e, del)),
            forall|x: int| #![trigger pick(gc, keep(e, del), x)] keep(e, del)[pick(gc, keep(e, del), x)].value == e[w(x)].value,
{
    let f = keep(e, del);
    let idx = keep_idx(e.len() as int, del);
    lemma_keep_is_map(e, del);
    lemma_keep_idx(e.len() as int, del);
    assert forall|x: int| #![trigger pick(gc, f, x)] hit(gc, f, x, pick(gc, f, x)) && (forall|j: int| #[trigger] hit(gc, f, x, j) ==> j == pick(gc, f, x))
        && f[pick(gc, f, x)].value == e[w(x)].value by {
        assert(idx.contains(w(x)));
        let j0 = choose|j: int| 0 <= j < idx.len() && idx[j] == w(x);
        assert(f[j0] == e[w(x)]);
        assert(hit(gc, f, x, j0));
        assert forall|j: int| #[trigger] hit(gc, f, x, j) implies j == j0 by {
            assert(f[j] == e[idx[j]]);
            assert(hit(gc, e, x, idx[j]));
            assert(idx[j] == w(x));
            if j < j0 { assert(idx[j] < idx[j0]); } else if j0 < j { assert(idx[j0] < idx[j]); }
        }
    }
}

/// the set handed to `keep` holds exactly the positions scheduled for deletion
pub proof fn lemma_dead_set(dl: Seq<usize>)
    ensures forall|k: int| #[trigger] del_set(dl).contains(k) == dead(dl, k),
{
    let m = dl.map_values(|i: usize| i as int);
    assert forall|k: int| #[trigger] m.to_set().contains(k) == dead(dl, k) by {
        if dead(dl, k) {
            let i = choose|i: int| 0 <= i < dl.len() && #[trigger] dl[i] == k;
            assert(m[i] == k);
            assert(m.contains(k));
        }
        if m.contains(k) {
            let i = choose|i: int| 0 <= i < m.len() && #[trigger] m[i] == k;
            assert(dl[i] == k);
        }
    }
}

pub proof fn lemma_dead_push(dl: Seq<usize>, p: usize, k: int)
    ensures dead(dl.push(p), k) == (dead(dl, k) || k == p),
{
    let n = dl.push(p);
    if dead(dl, k) { let i = choose|i: int| 0 <= i < dl.len() && #[trigger] dl[i] == k; assert(n[i] == k); }
    if k == p { assert(n[dl.len() as int] == k); }
    if dead(n, k) { let i = choose|i: int| 0 <= i < n.len() && #[trigger] n[i] == k; if i < dl.len() { assert(dl[i] == k); } }
}

pub proof fn lemma_dead_contains(dl: Seq<usize>, k: int)
    ensures dead(dl, k) == (0 <= k <= usize::MAX && dl.contains(k as usize)),
{
    if dead(dl, k) { let i = choose|i: int| 0 <= i < dl.len() && #[trigger] dl[i] == k; assert(dl[i] == k as usize); }
    if 0 <= k <= usize::MAX && dl.contains(k as usize) { let i = choose|i: int| 0 <= i < dl.len() && dl[i] == k as usize; assert(dl[i] == k); }
}

/// a selector function witnesses that the summary is a total function, and `pick` agrees with it
pub proof fn lemma_selects_partition<V: Value>(gc: &GuardCtx, s: Seq<Entry<V>>, w: spec_fn(int) -> int)
    requires forall|x: int| #![trigger w(x)] hit(gc, s, x, w(x)),
             forall|x: int, j: int| #[trigger] hit(gc, s, x, j) ==> j == w(x),
    ensures partition(gc, s),
            forall|x: int| #[trigger] pick(gc, s, x) == w(x),
{
    assert forall|x: int| #![trigger pick(gc, s, x)] hit(gc, s, x, pick(gc, s, x)) && pick(gc, s, x) == w(x)
        && (forall|j: int| #[trigger] hit(gc, s, x, j) ==> j == pick(gc, s, x)) by {
        assert(hit(gc, s, x, w(x)));
    }
}

/// if-then-else of two total functions under a guard and its complement is a total function that takes the value of the
/// first where the guard holds and of the second elsewhere
pub proof fn lemma_ite_merge<V: Value>(gc0: &GuardCtx, gc: &GuardCtx, t0: Seq<Entry<V>>, f0: Seq<Entry<V>>, tc: Guard, fc: Guard, r: Seq<Entry<V>>)
    requires partition(gc0, t0), partition(gc0, f0),
             forall|x: int| #![trigger gc0.holds(fc, x)] gc0.holds(fc, x) == !gc0.holds(tc, x),
             r.len() == t0.len() + f0.len(),
             forall|k: int| 0 <= k < t0.len() ==> (#[trigger] r[k]).value == t0[k].value
                 && (forall|x: int| #[trigger] gc.holds(r[k].guard, x) == (gc0.holds(t0[k].guard, x) && gc0.holds(tc, x))),
             forall|k: int| 0 <= k < f0.len() ==> (#[trigger] r[t0.len() + k]).value == f0[k].value
                 && (forall|x: int| #[trigger] gc.holds(r[t0.len() + k].guard, x) == (gc0.holds(f0[k].guard, x) && gc0.holds(fc, x))),
    ensures partition(gc, r),
            forall|x: int| #![trigger pick(gc, r, x)] r[pick(gc, r, x)].value
                == (if gc0.holds(tc, x) { t0[pick(gc0, t0, x)].value } else { f0[pick(gc0, f0, x)].value }),
{
    let w = |x: int| if gc0.holds(tc, x) { pick(gc0, t0, x) } else { t0.len() + pick(gc0, f0, x) };
    assert forall|x: int| #![trigger w(x)] hit(gc, r, x, w(x)) by {
        assert(hit(gc0, t0, x, pick(gc0, t0, x)));
        assert(hit(gc0, f0, x, pick(gc0, f0, x)));
        if !gc0.holds(tc, x) { assert(gc0.holds(fc, x)); let k = pick(gc0, f0, x); assert(r[t0.len() + k].value == f0[k].value); }
        else { let k = pick(gc0, t0, x); assert(r[k].value == t0[k].value); }
    }
    assert forall|x: int, j: int| #[trigger] hit(gc, r, x, j) implies j == w(x) by {
        assert(hit(gc0, t0, x, pick(gc0, t0, x)));
        assert(hit(gc0, f0, x, pick(gc0, f0, x)));
        if j < t0.len() {
            assert(r[j].value == t0[j].value);
            assert(hit(gc0, t0, x, j));
        } else {
            let k = j - t0.len();
            assert(r[t0.len() + k].value == f0[k].value);
            assert(hit(gc0, f0, x, k));
            assert(gc0.holds(fc, x));
        }
    }
    lemma_selects_partition(gc, r, w);
    assert forall|x: int| #![trigger pick(gc, r, x)] r[pick(gc, r, x)].value
        == (if gc0.holds(tc, x) { t0[pick(gc0, t0, x)].value } else { f0[pick(gc0, f0, x)].value }) by {
        assert(pick(gc, r, x) == w(x));
        if gc0.holds(tc, x) { let k = pick(gc0, t0, x); assert(hit(gc0, t0, x, k)); assert(r[k].value == t0[k].value); }
        else { let k = pick(gc0, f0, x); assert(hit(gc0, f0, x, k)); assert(r[t0.len() + k].value == f0[k].value); }
    }
}
