// ======================================================================================
// lemmas/bits.rs — PROVED (by bit_vector / arithmetic) facts behind DenseExprSet (no admit)
// ======================================================================================
pub open spec fn bit_of(w: u64, b: u32) -> bool { ((w >> b) & 1) == 1 }

pub broadcast proof fn lemma_bit_set(w: u64, b: u32, b2: u32)
    requires b < 64, b2 < 64,
    ensures #[trigger] bit_of(w | (1u64 << b), b2) == (b2 == b || bit_of(w, b2)),
{
    assert((((w | (1u64 << b)) >> b2) & 1 == 1) == (b2 == b || ((w >> b2) & 1) == 1)) by(bit_vector)
        requires b < 64, b2 < 64;
}

pub broadcast proof fn lemma_bit_clear(w: u64, b: u32, b2: u32)
    requires b < 64, b2 < 64,
    ensures #[trigger] bit_of(w & !(1u64 << b), b2) == (b2 != b && bit_of(w, b2)),
{
    assert((((w & !(1u64 << b)) >> b2) & 1 == 1) == (b2 != b && ((w >> b2) & 1) == 1)) by(bit_vector)
        requires b < 64, b2 < 64;
}

pub broadcast proof fn lemma_bit_zero(w: u64, b: u32)
    requires b < 64, w == 0,
    ensures ((#[trigger] (w >> b)) & 1) == 0, !bit_of(w, b),
{
    assert(((w >> b) & 1) == 0) by(bit_vector) requires b < 64, w == 0;
}

pub broadcast proof fn lemma_bit_of_zero(w: u64, b: u32)
    requires b < 64, w == 0,
    ensures !(#[trigger] bit_of(w, b)),
{
    assert(((w >> b) & 1) == 0) by(bit_vector) requires b < 64, w == 0;
}

/// different references have different (word, bit) coordinates
pub broadcast proof fn lemma_pos_inj(a: ExprRef, b: ExprRef)
    ensures (#[trigger] pos(a) == #[trigger] pos(b)) ==> a == b,
            pos(a) / 64 == pos(b) / 64 && pos(a) % 64 == pos(b) % 64 ==> pos(a) == pos(b),
{
}
