// lemmas of unit evalloop (all proved): the work-list discipline `run` and the stack correspondence `match_stacks`

/// the work list after pushing `(e, true)` and then the first i operands of e (each `(c, false)`), as the traversal does
pub open spec fn with_kids(rest: Seq<Item>, e: ExprRef, k: Seq<ExprRef>, i: int) -> Seq<Item>
    decreases i,
{
    if i <= 0 { rest.push((e, true)) } else { with_kids(rest, e, k, i - 1).push((k[i - 1], false)) }
}

/// sx followed by the first i operands in reverse order (k[i-1] .. k[0]): what the stack list looks like after those
/// operands have been evaluated in pop order
pub open spec fn rev_onto(sx: Seq<ExprRef>, k: Seq<ExprRef>, i: int) -> Seq<ExprRef>
    decreases i,
{
    if i <= 0 { sx } else { rev_onto(sx.push(k[i - 1]), k, i - 1) }
}

proof fn lemma_rev_onto_shape(sx: Seq<ExprRef>, k: Seq<ExprRef>, i: int)
    requires 0 <= i <= k.len(),
    ensures rev_onto(sx, k, i).len() == sx.len() + i,
            forall|j: int| 0 <= j < sx.len() ==> rev_onto(sx, k, i)[j] == sx[j],
            forall|j: int| 0 <= j < i ==> rev_onto(sx, k, i)[sx.len() + i - 1 - j] == #[trigger] k[j],
    decreases i,
{
    if i > 0 {
        lemma_rev_onto_shape(sx.push(k[i - 1]), k, i - 1);
        assert forall|j: int| 0 <= j < i implies rev_onto(sx, k, i)[sx.len() + i - 1 - j] == #[trigger] k[j] by {
            if j == i - 1 { assert(sx.push(k[i - 1])[sx.len() as int] == k[i - 1]); }
        }
        assert forall|j: int| 0 <= j < sx.len() implies rev_onto(sx, k, i)[j] == sx[j] by { assert(sx.push(k[i - 1])[j] == sx[j]); }
    }
}

proof fn lemma_run_with_kids(ctx: &Context, rest: Seq<Item>, e: ExprRef, k: Seq<ExprRef>, i: int, sx: Seq<ExprRef>)
    requires 0 <= i <= k.len(),
    ensures run(ctx, with_kids(rest, e, k, i), sx) == run(ctx, rest.push((e, true)), rev_onto(sx, k, i)),
    decreases i,
{
    if i > 0 {
        let t = with_kids(rest, e, k, i);
        let t1 = with_kids(rest, e, k, i - 1);
        assert(t.last() == (k[i - 1], false));
        assert(t.drop_last() =~= t1);
        lemma_run_with_kids(ctx, rest, e, k, i - 1, sx.push(k[i - 1]));
    }
}

/// pushing `(e, true)` and all operands of e, in order, has the same effect as the single item `(e, false)` had it not been
/// expanded: the work list will leave exactly the value of e
pub proof fn lemma_run_children(ctx: &Context, rest: Seq<Item>, e: ExprRef, sx: Seq<ExprRef>)
    ensures run(ctx, with_kids(rest, e, kids(ctx.nodes()[e]), kids(ctx.nodes()[e]).len() as int), sx) == run(ctx, rest, sx.push(e)),
{
    let k = kids(ctx.nodes()[e]);
    let n = k.len() as int;
    lemma_run_with_kids(ctx, rest, e, k, n, sx);
    let s2 = rev_onto(sx, k, n);
    lemma_rev_onto_shape(sx, k, n);
    let t = rest.push((e, true));
    assert(t.last() == (e, true));
    assert(t.drop_last() =~= rest);
    assert(on_top(s2, k));
    assert(s2.subrange(0, s2.len() - k.len()) =~= sx);
}

/// one step of `run` for the item on top of the work list
pub proof fn lemma_run_step(ctx: &Context, todo: Seq<Item>, sx: Seq<ExprRef>)
    requires todo.len() > 0,
    ensures ({ let (e, avail) = todo.last(); let k = kids(ctx.nodes()[e]);
               run(ctx, todo, sx) == (if !avail { run(ctx, todo.drop_last(), sx.push(e)) }
                                      else if on_top(sx, k) { run(ctx, todo.drop_last(), sx.subrange(0, sx.len() - k.len()).push(e)) }
                                      else { None::<Seq<ExprRef>> }) }),
{
}

pub proof fn lemma_match_push_bv<V: GetExprValue>(ctx: &Context, vals: &V, sx: Seq<ExprRef>, bv: Seq<BitVecValue>, arr: Seq<ArrayValue>, e: ExprRef, x: BitVecValue)
    requires match_stacks(ctx, vals, sx, bv, arr), !ctx.nodes()[e].arr_node(), d_lit(x.w(), x.v()) == ev(ctx, vals, e),
             ctx.ty(e) == Type::BV(x.w() as u32), 1 <= x.w() <= u32::MAX,
    ensures match_stacks(ctx, vals, sx.push(e), bv.push(x), arr),
{
    assert(sx.push(e).drop_last() =~= sx);
    assert(bv.push(x).drop_last() =~= bv);
}

pub proof fn lemma_match_push_arr<V: GetExprValue>(ctx: &Context, vals: &V, sx: Seq<ExprRef>, bv: Seq<BitVecValue>, arr: Seq<ArrayValue>, e: ExprRef, x: ArrayValue)
    requires match_stacks(ctx, vals, sx, bv, arr), ctx.nodes()[e].arr_node(), x.den() == ev(ctx, vals, e),
             ctx.ty(e) == Type::Array(ArrayType { index_width: x.iw() as u32, data_width: x.dw() as u32 }), 1 <= x.iw() <= u32::MAX, 1 <= x.dw() <= u32::MAX,
    ensures match_stacks(ctx, vals, sx.push(e), bv, arr.push(x)),
{
    assert(sx.push(e).drop_last() =~= sx);
    assert(arr.push(x).drop_last() =~= arr);
}

/// a one-element expression list is matched by exactly one value, on the stack of its sort
pub broadcast proof fn lemma_match_single<V: GetExprValue>(ctx: &Context, vals: &V, e: ExprRef, bv: Seq<BitVecValue>, arr: Seq<ArrayValue>)
    requires #[trigger] match_stacks(ctx, vals, seq![e], bv, arr),
    ensures bv.len() + arr.len() == 1,
            ctx.nodes()[e].arr_node() ==> arr.len() == 1 && arr[0].den() == ev(ctx, vals, e),
            !ctx.nodes()[e].arr_node() ==> bv.len() == 1 && d_lit(bv[0].w(), bv[0].v()) == ev(ctx, vals, e) && ctx.ty(e) == Type::BV(bv[0].w() as u32),
{
    reveal_with_fuel(match_stacks, 3);
    assert(seq![e].last() == e);
    assert(seq![e].drop_last() =~= Seq::<ExprRef>::empty());
}

/// one more operand pushed: the work list grows by `(k[i], false)`
pub proof fn lemma_with_kids_step(rest: Seq<Item>, e: ExprRef, k: Seq<ExprRef>, i: int)
    requires 0 <= i,
    ensures with_kids(rest, e, k, i + 1) == with_kids(rest, e, k, i).push((k[i], false)),
            with_kids(rest, e, k, 0) == rest.push((e, true)),
{
}

/// number of bit-vector-sorted expressions among the top k of sx
pub open spec fn nbv(ctx: &Context, sx: Seq<ExprRef>, k: int) -> int
    decreases k,
{
    if k <= 0 || sx.len() == 0 { 0 } else { (if ctx.nodes()[sx.last()].arr_node() { 0int } else { 1int }) + nbv(ctx, sx.drop_last(), k - 1) }
}

/// removing the top k expressions removes their values: nbv of them from the bit-vector stack, the others from the array stack
pub proof fn lemma_peel<V: GetExprValue>(ctx: &Context, vals: &V, sx: Seq<ExprRef>, bv: Seq<BitVecValue>, arr: Seq<ArrayValue>, k: int)
    requires match_stacks(ctx, vals, sx, bv, arr), 0 <= k <= sx.len(),
    ensures 0 <= nbv(ctx, sx, k) <= k, nbv(ctx, sx, k) <= bv.len(), k - nbv(ctx, sx, k) <= arr.len(),
            match_stacks(ctx, vals, sx.subrange(0, sx.len() - k), bv.subrange(0, bv.len() - nbv(ctx, sx, k)), arr.subrange(0, arr.len() - (k - nbv(ctx, sx, k)))),
    decreases k,
{
    if k == 0 {
        assert(sx.subrange(0, sx.len() as int) =~= sx);
        assert(bv.subrange(0, bv.len() as int) =~= bv);
        assert(arr.subrange(0, arr.len() as int) =~= arr);
    } else {
        let e = sx.last();
        if ctx.nodes()[e].arr_node() {
            lemma_peel(ctx, vals, sx.drop_last(), bv, arr.drop_last(), k - 1);
            let n1 = nbv(ctx, sx.drop_last(), k - 1);
            assert(sx.drop_last().subrange(0, sx.drop_last().len() - (k - 1)) =~= sx.subrange(0, sx.len() - k));
            assert(arr.drop_last().subrange(0, arr.drop_last().len() - ((k - 1) - n1)) =~= arr.subrange(0, arr.len() - (k - n1)));
        } else {
            lemma_peel(ctx, vals, sx.drop_last(), bv.drop_last(), arr, k - 1);
            let n1 = nbv(ctx, sx.drop_last(), k - 1);
            assert(sx.drop_last().subrange(0, sx.drop_last().len() - (k - 1)) =~= sx.subrange(0, sx.len() - k));
            assert(bv.drop_last().subrange(0, bv.drop_last().len() - n1) =~= bv.subrange(0, bv.len() - (n1 + 1)));
        }
    }
}

/// the syntactic sort test of the evaluator (types.rs is_array_type) agrees with the type of the node
pub proof fn lemma_arr_node_ty(ctx: &Context, r: ExprRef)
    requires ctx.wf(), ctx.has(r),
    ensures ctx.nodes()[r].arr_node() == (ctx.ty(r) is Array),
{
    ctx.lemma_node_ok(r);
    match ctx.nodes()[r] {
        Expr::BVIte { cond, tru, fals } => { ctx.lemma_node_ok(fals); }
        Expr::ArrayIte { cond, tru, fals } => { ctx.lemma_node_ok(fals); }
        Expr::ArrayStore { array, index, data } => { ctx.lemma_node_ok(array); }
        _ => {}
    }
}

/// the value on a stack stands for expression x: same denotation, and its width(s) are those of x's type
pub open spec fn bv_is<V: GetExprValue>(ctx: &Context, vals: &V, x: ExprRef, v: BitVecValue) -> bool {
    d_lit(v.w(), v.v()) == ev(ctx, vals, x) && ctx.ty(x) == Type::BV(v.w() as u32) && 1 <= v.w() <= u32::MAX
}
pub open spec fn arr_is<V: GetExprValue>(ctx: &Context, vals: &V, x: ExprRef, a: ArrayValue) -> bool {
    a.den() == ev(ctx, vals, x) && ctx.ty(x) == Type::Array(ArrayType { index_width: a.iw() as u32, data_width: a.dw() as u32 })
        && 1 <= a.iw() <= u32::MAX && 1 <= a.dw() <= u32::MAX
}
pub open spec fn b2i(b: bool) -> int { if b { 1 } else { 0 } }

/// where the values of the top three expressions of sx are (no recursion left for the caller to unfold)
pub proof fn lemma_top_facts<V: GetExprValue>(ctx: &Context, vals: &V, sx: Seq<ExprRef>, bv: Seq<BitVecValue>, arr: Seq<ArrayValue>)
    requires match_stacks(ctx, vals, sx, bv, arr),
    ensures
        nbv(ctx, sx, 0) == 0,
        sx.len() >= 1 ==> ({ let x0 = sx[sx.len() - 1]; let a0 = ctx.nodes()[x0].arr_node();
            &&& nbv(ctx, sx, 1) == b2i(!a0)
            &&& !a0 ==> bv.len() >= 1 && bv_is(ctx, vals, x0, bv[bv.len() - 1])
            &&& a0 ==> arr.len() >= 1 && arr_is(ctx, vals, x0, arr[arr.len() - 1]) }),
        sx.len() >= 2 ==> ({ let x0 = sx[sx.len() - 1]; let a0 = ctx.nodes()[x0].arr_node();
                             let x1 = sx[sx.len() - 2]; let a1 = ctx.nodes()[x1].arr_node();
            &&& nbv(ctx, sx, 2) == b2i(!a0) + b2i(!a1)
            &&& !a1 ==> bv.len() >= 1 + b2i(!a0) && bv_is(ctx, vals, x1, bv[bv.len() - 1 - b2i(!a0)])
            &&& a1 ==> arr.len() >= 1 + b2i(a0) && arr_is(ctx, vals, x1, arr[arr.len() - 1 - b2i(a0)]) }),
        sx.len() >= 3 ==> ({ let x0 = sx[sx.len() - 1]; let a0 = ctx.nodes()[x0].arr_node();
                             let x1 = sx[sx.len() - 2]; let a1 = ctx.nodes()[x1].arr_node();
                             let x2 = sx[sx.len() - 3]; let a2 = ctx.nodes()[x2].arr_node();
            &&& nbv(ctx, sx, 3) == b2i(!a0) + b2i(!a1) + b2i(!a2)
            &&& !a2 ==> bv.len() >= 1 + b2i(!a0) + b2i(!a1) && bv_is(ctx, vals, x2, bv[bv.len() - 1 - b2i(!a0) - b2i(!a1)])
            &&& a2 ==> arr.len() >= 1 + b2i(a0) + b2i(a1) && arr_is(ctx, vals, x2, arr[arr.len() - 1 - b2i(a0) - b2i(a1)]) }),
{
    reveal_with_fuel(match_stacks, 4);
    reveal_with_fuel(nbv, 4);
    if sx.len() >= 1 {
        let s1 = sx.drop_last();
        if sx.len() >= 2 {
            assert(s1.last() == sx[sx.len() - 2]);
            let s2 = s1.drop_last();
            if sx.len() >= 3 {
                assert(s2.last() == sx[sx.len() - 3]);
            }
        }
    }
}
