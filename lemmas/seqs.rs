// ======================================================================================
// lemmas/seqs.rs — PROVED facts about Seq::contains under push / drop_last (no admit)
// ======================================================================================
pub broadcast proof fn lemma_contains_push<A>(s: Seq<A>, x: A, d: A)
    ensures #[trigger] s.push(x).contains(d) <==> (s.contains(d) || d == x),
{
    if s.contains(d) {
        let i = choose|i: int| 0 <= i < s.len() && s[i] == d;
        assert(s.push(x)[i] == d);
    }
    if d == x {
        assert(s.push(x)[s.len() as int] == d);
    }
    if s.push(x).contains(d) {
        let i = choose|i: int| 0 <= i < s.push(x).len() && s.push(x)[i] == d;
        if i < s.len() { assert(s[i] == d); }
    }
}

pub broadcast proof fn lemma_contains_drop_last<A>(s: Seq<A>, d: A)
    requires s.len() > 0,
    ensures s.contains(d) <==> (#[trigger] s.drop_last().contains(d) || d == s.last()),
{
    if s.contains(d) {
        let i = choose|i: int| 0 <= i < s.len() && s[i] == d;
        if i < s.len() - 1 { assert(s.drop_last()[i] == d); }
    }
    if s.drop_last().contains(d) {
        let i = choose|i: int| 0 <= i < s.drop_last().len() && s.drop_last()[i] == d;
        assert(s[i] == d);
    }
    if d == s.last() { assert(s[s.len() - 1] == d); }
}

/// Vec::pop is specified with `subrange(0, len - 1)`
pub broadcast proof fn lemma_contains_prefix<A>(s: Seq<A>, a: int, n: int, d: A)
    requires a == 0, 0 <= n < s.len(),
    ensures #[trigger] s.subrange(a, n).contains(d) ==> s.contains(d),
            n == s.len() - 1 ==> (s.contains(d) ==> s.subrange(a, n).contains(d) || d == s[n]),
{
    if s.subrange(a, n).contains(d) {
        let i = choose|i: int| 0 <= i < s.subrange(a, n).len() && s.subrange(a, n)[i] == d;
        assert(s[i] == d);
    }
    if n == s.len() - 1 && s.contains(d) {
        let i = choose|i: int| 0 <= i < s.len() && s[i] == d;
        if i < n { assert(s.subrange(a, n)[i] == d); }
    }
}

pub broadcast proof fn lemma_index_contains<A>(s: Seq<A>, i: int)
    requires 0 <= i < s.len(),
    ensures s.contains(#[trigger] s[i]),
{
}

/// visiting one more element of a finite universe shrinks the unvisited part
pub broadcast proof fn lemma_diff_insert_len<A>(u: Set<A>, v: Set<A>, e: A)
    requires u.finite(), u.contains(e), !v.contains(e),
    ensures (#[trigger] u.difference(v.insert(e))).len() < u.difference(v).len(),
{
    assert(u.difference(v.insert(e)) =~= u.difference(v).remove(e));
    assert(u.difference(v).contains(e));
}

pub broadcast group group_seqs {
    lemma_index_contains,
    lemma_diff_insert_len,
    lemma_contains_push,
    lemma_contains_drop_last,
    lemma_contains_prefix,
}
