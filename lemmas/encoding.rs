// ======================================================================================
// lemmas/encoding.rs — C04: every non-state signal is declared/defined AT MOST ONCE per step, and EXACTLY ONCE at every
// step where something refers to it, for both entry points:  init_at(s); unroll; unroll; ...   (s == 0 or s > 0).
// `init_at_defs` / `unroll_defs` are generated from the real text of init_at / unroll (call sites of define_signals with
// their path conditions, step arguments and filter closures).
// ======================================================================================

/// number of times `info` is declared/defined for step k by  init_at(s)  followed by n calls of unroll
pub open spec fn total_defs(s: Step, n: int, k: int, info: SmtSignalInfo) -> int {
    init_at_defs(s, k, info)
    + (if s <= k - 1 && k - 1 < s + n { unroll_defs(s, (k - 1) as Step, k, info) } else { 0 })
    + (if s <= k && k < s + n { unroll_defs(s, k as Step, k, info) } else { 0 })
}

/// unroll from step p only defines signals for steps p and p+1, init_at(s) only for step s
pub proof fn lemma_schedule_support(s: Step, p: Step, k: int, info: SmtSignalInfo)
    requires s <= p, p < u64::MAX,
    ensures k != p && k != p + 1 ==> unroll_defs(s, p, k, info) == 0,
            k != s ==> init_at_defs(s, k, info) == 0,
{
}

/// something refers to the signal at step k: constraints / bad states / witness extraction (other use or input),
/// a next-state function evaluated at step k, or an init expression (only when starting at step 0)
pub open spec fn referenced(s: Step, n: int, k: int, info: SmtSignalInfo) -> bool {
    ||| info.uses.other > 0 || info.is_input
    ||| (info.uses.next > 0 && k < s + n)
    ||| (info.uses.init > 0 && s == 0 && k == 0)
}

pub proof fn theorem_at_most_once(s: Step, n: int, k: int, info: SmtSignalInfo)
    requires n >= 0, s + n < u64::MAX,
    ensures total_defs(s, n, k, info) <= 1,
{
}

pub proof fn theorem_exactly_once_when_referenced(s: Step, n: int, k: int, info: SmtSignalInfo)
    requires n >= 0, s + n < u64::MAX, s <= k <= s + n, referenced(s, n, k, info),
    ensures total_defs(s, n, k, info) == 1,
{
}
