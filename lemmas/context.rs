// ======================================================================================
// lemmas/context.rs — PROVED lemmas of unit context (C12): appending to the expression table / the interner changes nothing
// that already existed (stability), and the appended node gets the type and denotation of its operator (no admit).
// ======================================================================================

/// the table of `new` starts with the table of `old`, interned literals keep their value, the cached constants are the same
pub open spec fn grows(old: &Context, new: &Context) -> bool {
    &&& old.exprs@.len() <= new.exprs@.len() <= u32::MAX
    &&& forall|i: int| 0 <= i < old.exprs@.len() ==> #[trigger] new.exprs@[i] == old.exprs@[i]
    &&& new.values.extends(&old.values)
    &&& new.true_expr_ref == old.true_expr_ref && new.false_expr_ref == old.false_expr_ref
}

/// children of every old node are older than the node (part of node_ok, restated so that it can be used before wf is unfolded)
pub open spec fn old_kids_older(c: &Context) -> bool {
    forall|r: ExprRef, i: int| #[trigger] c.has(r) && 0 <= i < kids(c.nodes()[r]).len() ==> (#[trigger] kids(c.nodes()[r])[i]).0 < r.0 && c.has(kids(c.nodes()[r])[i])
}

/// literal nodes refer to interned values (part of node_ok, restated)
pub open spec fn old_lits_interned(c: &Context) -> bool {
    forall|r: ExprRef| #[trigger] c.has(r) && c.nodes()[r] is BVLiteral ==> c.values.interned(c.nodes()[r]->BVLiteral_0.0)
}

pub proof fn lemma_frame(old: &Context, new: &Context, r: ExprRef)
    requires grows(old, new), old_kids_older(old), old_lits_interned(old), old.has(r),
    ensures new.has(r), new.nodes()[r] == old.nodes()[r], new.ty(r) == old.ty(r), new.den(r) == old.den(r),
    decreases r.0,
{
    old.lemma_nodes();
    new.lemma_nodes();
    let n = old.nodes()[r];
    assert(new.nodes()[r] == n);
    assert forall|i: int| 0 <= i < kids(n).len() implies new.ty(#[trigger] kids(n)[i]) == old.ty(kids(n)[i]) && new.den(kids(n)[i]) == old.den(kids(n)[i])
        && kids(n)[i].0 < r.0 by {
        lemma_frame(old, new, kids(n)[i]);
    }
    lemma_kids_cover(n);
}

/// `kids` lists exactly the ExprRef fields of a node (used to transfer facts about all children at once)
pub proof fn lemma_kids_cover(n: Expr)
    ensures match n {
        Expr::BVZeroExt { e, .. } | Expr::BVSignExt { e, .. } | Expr::BVSlice { e, .. } | Expr::ArrayConstant { e, .. } => kids(n)[0] == e && kids(n).len() == 1,
        Expr::BVNot(e, _) | Expr::BVNegate(e, _) => kids(n)[0] == e && kids(n).len() == 1,
        Expr::BVSymbol { .. } | Expr::BVLiteral(_) | Expr::ArraySymbol { .. } => kids(n).len() == 0,
        Expr::BVIte { cond, tru, fals } | Expr::ArrayIte { cond, tru, fals } => kids(n)[0] == cond && kids(n)[1] == tru && kids(n)[2] == fals && kids(n).len() == 3,
        Expr::ArrayStore { array, index, data } => kids(n)[0] == array && kids(n)[1] == index && kids(n)[2] == data && kids(n).len() == 3,
        Expr::BVArrayRead { array, index, .. } => kids(n)[0] == array && kids(n)[1] == index && kids(n).len() == 2,
        _ => kids(n).len() == 2,
    },
{
}

pub proof fn lemma_extends(old: &Context, new: &Context)
    requires grows(old, new), old_kids_older(old), old_lits_interned(old),
    ensures new.extends(old),
{
    assert forall|r: ExprRef| #[trigger] old.has(r) implies new.has(r) && new.nodes()[r] == old.nodes()[r]
        && new.den(r) == old.den(r) && new.ty(r) == old.ty(r) by {
        lemma_frame(old, new, r);
    }
}
