// ======================================================================================
// lemmas/context.rs — PROVED lemmas of unit context (C12): appending to the expression table / the interner changes nothing
// that already existed (stability), and the appended node gets the type and denotation of its operator (no admit).
// ======================================================================================

/// the table of `new` starts with the table of `old`, interned literals keep their value
pub open spec fn grows(old: &Context, new: &Context) -> bool {
    &&& old.exprs@.len() <= new.exprs@.len() <= u32::MAX
    &&& forall|i: int| 0 <= i < old.exprs@.len() ==> #[trigger] new.exprs@[i] == old.exprs@[i]
    &&& new.values.extends(&old.values)
}

/// children of every old node are older than the node (part of node_ok, restated so that it can be used before wf is unfolded)
pub open spec fn old_kids_older(c: &Context) -> bool {
    forall|r: ExprRef, i: int| #[trigger] c.has(r) && 0 <= i < kids(c.nodes()[r]).len() ==> (#[trigger] kids(c.nodes()[r])[i]).0 < r.0 && c.has(kids(c.nodes()[r])[i])
}

/// literal nodes refer to interned values (part of node_ok, restated)
pub open spec fn old_lits_interned(c: &Context) -> bool {
    forall|r: ExprRef| #[trigger] c.has(r) && c.nodes()[r] is BVLiteral ==> c.values.interned(c.nodes()[r]->BVLiteral_0.0)
}

/// `kids` lists exactly the ExprRef fields of a node (used to transfer facts about all children at once)
pub proof fn lemma_kids_cover(n: Expr)
    ensures match n {
        Expr::BVZeroExt { e, .. } | Expr::BVSignExt { e, .. } | Expr::BVSlice { e, .. } | Expr::ArrayConstant { e, .. } => kids(n)[0] == e && kids(n).len() == 1,
        Expr::BVNot(e, _) | Expr::BVNegate(e, _) => kids(n)[0] == e && kids(n).len() == 1,
        Expr::BVSymbol { .. } | Expr::BVLiteral(_) | Expr::ArraySymbol { .. } => kids(n).len() == 0,
        Expr::BVIte { cond, tru, fals } | Expr::ArrayIte { cond, tru, fals } => kids(n)[0] == cond && kids(n)[1] == tru && kids(n)[2] == fals && kids(n).len() == 3,
        Expr::ArrayStore { array, index, data } => kids(n)[0] == array && kids(n)[1] == index && kids(n)[2] == data && kids(n).len() == 3,
        Expr::BVArrayRead { array, index, .. } => kids(n)[0] == array && kids(n)[1] == index && kids(n).len() == 2,
        _ => kids(n).len() == 2,
    },
{
}

//@@GENERATED-LEMMAS@@

pub proof fn lemma_extends(old: &Context, new: &Context)
    requires grows(old, new), old_kids_older(old), old_lits_interned(old),
    ensures new.frame(old),
{
    assert forall|r: ExprRef| #[trigger] old.has(r) implies new.has(r) && new.nodes()[r] == old.nodes()[r]
        && new.den(r) == old.den(r) && new.ty(r) == old.ty(r) by {
        lemma_frame(old, new, r);
    }
}

/// wf gives the two restated facts
pub proof fn lemma_wf_basics(c: &Context)
    requires c.wf_core(),
    ensures old_kids_older(c), old_lits_interned(c),
{
    reveal(Context::all_nodes_ok);
    assert forall|r: ExprRef, i: int| #[trigger] c.has(r) && 0 <= i < kids(c.nodes()[r]).len() implies
        (#[trigger] kids(c.nodes()[r])[i]).0 < r.0 && c.has(kids(c.nodes()[r])[i]) by {
        assert(c.node_ok(r));
    }
    assert forall|r: ExprRef| #[trigger] c.has(r) && c.nodes()[r] is BVLiteral implies c.values.interned(c.nodes()[r]->BVLiteral_0.0) by {
        assert(c.node_ok(r));
    }
}

/// growing a well-formed context keeps it well-formed, provided the appended nodes are ok
pub proof fn lemma_grow_wf(old: &Context, new: &Context)
    requires old.wf_core(), grows(old, new), new.rep(),
             forall|r: ExprRef| #[trigger] new.has(r) && !old.has(r) ==> new.node_ok(r),
    ensures new.wf_core(), new.frame(old),
            (new.true_expr_ref == old.true_expr_ref && new.false_expr_ref == old.false_expr_ref) ==> new.extends(old) && (old.consts_ok() ==> new.consts_ok()),
{
    lemma_wf_basics(old);
    lemma_extends(old, new);
    old.lemma_nodes();
    new.lemma_nodes();
    assert(new.all_nodes_ok()) by {
        reveal(Context::all_nodes_ok);
        assert forall|r: ExprRef| #[trigger] new.has(r) implies new.node_ok(r) by {
            if old.has(r) { lemma_node_ok_transfer(old, new, r); }
        }
    }
    // canonical: one reference per node (the table has no duplicates), one handle per literal (interner invariant)
    assert forall|r: ExprRef| #[trigger] new.has(r) implies new.ref_of(new.nodes()[r]) == r by {
        let r2 = new.ref_of(new.nodes()[r]);
        assert(new.has(r2) && new.nodes()[r2] == new.nodes()[r]);
        assert(new.exprs@[r2.0 - 1] == new.exprs@[r.0 - 1]);
    }
    assert forall|l: BVLitValue| #[trigger] new.lit_interned(l) implies new.lit_of(l.0.width, new.lit_v(l)) == l by {
        let l2 = new.lit_of(l.0.width, new.lit_v(l));
        assert(new.values.interned(l2.0) && l2.0.width == l.0.width && new.values.val(l2.0) == new.values.val(l.0));
    }
}


/// the whole proof obligation of `add_expr` after the table insert: either the node was present (nothing changed) or it was appended
pub proof fn lemma_add_expr(old: &Context, new: &Context, value: Expr, index: usize, fresh: bool)
    requires old.wf_core(), old.node_typed(value), new.exprs.inv(), new.strings == old.strings, new.values == old.values,
             new.true_expr_ref == old.true_expr_ref, new.false_expr_ref == old.false_expr_ref,
             old.exprs@.contains(value) ==> new.exprs@ == old.exprs@ && index < old.exprs@.len() && old.exprs@[index as int] == value,
             !old.exprs@.contains(value) ==> new.exprs@ == old.exprs@.push(value) && index == old.exprs@.len(),
             index < u32::MAX - 1,
    ensures built(old, new, ExprRef((index + 1) as u32), value, old.node_ty(value), old.node_den(value)),
            old.is_node(value) ==> old.has(ExprRef((index + 1) as u32)) && old.nodes()[ExprRef((index + 1) as u32)] == value,
{
    let r = ExprRef((index + 1) as u32);
    old.lemma_nodes(); new.lemma_nodes();
    old.exprs.ax_table_bound(); new.exprs.ax_table_bound();
    lemma_wf_basics(old);
    assert(grows(old, new));
    if old.exprs@.contains(value) {
        assert forall|q: ExprRef| #[trigger] new.has(q) && !old.has(q) implies new.node_ok(q) by {}
        lemma_grow_wf(old, new);
        assert(old.has(r) && old.nodes()[r] == value);
        old.lemma_node_ok(r);
    } else {
        lemma_extends(old, new);
        lemma_new_node(old, new, value);
        assert forall|q: ExprRef| #[trigger] new.has(q) && !old.has(q) implies new.node_ok(q) by { assert(q == r); }
        lemma_grow_wf(old, new);
        if old.is_node(value) {
            let q = choose|q: ExprRef| #[trigger] old.has(q) && old.nodes()[q] == value;
            assert(old.exprs@[q.0 - 1] == value);
        }
    }
}

/// interning a value only extends the interner: the expression table is untouched and the context stays well-formed
pub proof fn lemma_values_grow(old: &Context, new: &Context)
    requires old.wf_core(), new.exprs == old.exprs, new.strings == old.strings, new.values.inv(), new.values.extends(&old.values),
             new.true_expr_ref == old.true_expr_ref, new.false_expr_ref == old.false_expr_ref,
    ensures new.wf_core(), new.extends(old), old.consts_ok() ==> new.consts_ok(),
{
    old.lemma_nodes(); new.lemma_nodes();
    old.exprs.ax_table_bound();
    assert(grows(old, new));
    assert forall|q: ExprRef| #[trigger] new.has(q) && !old.has(q) implies new.node_ok(q) by {}
    lemma_grow_wf(old, new);
}

// ---------------------------------------------------------------- C12 as theorems over the (verified) contract of add_expr
/// what `add_expr(value)` guarantees (the text of its `ensures` in contracts/context.spec, with old/final made explicit)
pub open spec fn add_expr_post(c0: &Context, c1: &Context, r: ExprRef, value: Expr) -> bool {
    &&& built(c0, c1, r, value, c0.node_ty(value), c0.node_den(value))
    &&& c0.is_node(value) ==> c0.has(r) && c0.nodes()[r] == value
}

/// canonical: building the same node again — after any number of other insertions — returns the same reference
pub proof fn theorem_same_node_same_ref(c0: &Context, c1: &Context, c2: &Context, c3: &Context, v: Expr, r1: ExprRef, r2: ExprRef)
    requires add_expr_post(c0, c1, r1, v), c2.extends(c1), c2.wf(), add_expr_post(c2, c3, r2, v),
    ensures r1 == r2,
{
    assert(c1.has(r1));
    assert(c2.has(r1) && c2.nodes()[r1] == v);
    assert(c2.is_node(v));
    assert(c2.ref_of(c2.nodes()[r1]) == r1);
    assert(c2.ref_of(c2.nodes()[r2]) == r2);
}

/// canonical: structurally different nodes get different references
pub proof fn theorem_different_node_different_ref(c0: &Context, c1: &Context, c2: &Context, c3: &Context, v1: Expr, v2: Expr, r1: ExprRef, r2: ExprRef)
    requires add_expr_post(c0, c1, r1, v1), c2.extends(c1), add_expr_post(c2, c3, r2, v2), v1 != v2,
    ensures r1 != r2,
{
    assert(c1.has(r1));
    assert(c2.has(r1) && c2.nodes()[r1] == v1);
    assert(c3.has(r1) && c3.nodes()[r1] == v1);
}

/// stable: `extends` composes, so a reference keeps its node, type and denotation (and true/false stay the same two references)
/// across any sequence of builder calls (every builder ensures `final(self).extends(old(self))`)
pub proof fn theorem_extends_transitive(c0: &Context, c1: &Context, c2: &Context)
    requires c1.extends(c0), c2.extends(c1),
    ensures c2.extends(c0),
{
    assert forall|r: ExprRef| #[trigger] c0.has(r) implies c2.has(r) && c2.nodes()[r] == c0.nodes()[r]
        && c2.den(r) == c0.den(r) && c2.ty(r) == c0.ty(r) by { assert(c1.has(r)); }
    assert forall|l: BVLitValue| #[trigger] c0.lit_interned(l) implies c2.lit_interned(l) && c2.lit_v(l) == c0.lit_v(l) by { assert(c1.lit_interned(l)); }
}

/// what `bv_lit(value)` guarantees about the node it returns (the node-related part of its `ensures`), for a value (w, v)
pub open spec fn bv_lit_post(c0: &Context, c1: &Context, r: ExprRef, w: int, v: int) -> bool {
    &&& c1.extends(c0) && c1.wf() && c1.has(r)
    &&& c1.nodes()[r] is BVLiteral
    &&& c1.nodes()[r]->BVLiteral_0.0.width == w
    &&& c1.lit_v(c1.nodes()[r]->BVLiteral_0) == v
}

/// canonical literals: the same (width, value) — however it was computed — is the same reference
pub proof fn theorem_same_literal_same_ref(c0: &Context, c1: &Context, c2: &Context, c3: &Context, w: int, v: int, r1: ExprRef, r2: ExprRef)
    requires bv_lit_post(c0, c1, r1, w, v), c2.extends(c1), c2.wf(), bv_lit_post(c2, c3, r2, w, v),
    ensures r1 == r2,
{
    theorem_extends_transitive(c1, c2, c3);
    assert(c1.has(r1));
    assert(c2.has(r1));
    assert(c3.has(r1) && c3.nodes()[r1] == c1.nodes()[r1]);
    let l1 = c3.nodes()[r1]->BVLiteral_0;
    let l2 = c3.nodes()[r2]->BVLiteral_0;
    lemma_wf_basics(c1);
    lemma_wf_basics(c3);
    assert(c1.lit_interned(l1));
    assert(c2.lit_interned(l1));
    assert(c3.lit_interned(l1) && c3.lit_v(l1) == v);
    assert(c3.lit_interned(l2));
    assert(c3.lit_of(l1.0.width, c3.lit_v(l1)) == l1);
    assert(c3.lit_of(l2.0.width, c3.lit_v(l2)) == l2);
    assert(l1 == l2);
    assert(c3.nodes()[r1] == c3.nodes()[r2]);
    assert(c3.ref_of(c3.nodes()[r1]) == r1);
    assert(c3.ref_of(c3.nodes()[r2]) == r2);
}
