// ======================================================================================
// lemmas/context.rs — PROVED lemmas of unit context (C12): appending to the expression table / the interner changes nothing
// that already existed (stability), and the appended node gets the type and denotation of its operator (no admit).
// ======================================================================================

/// the table of `new` starts with the table of `old`, interned literals keep their value, the cached constants are the same
pub open spec fn grows(old: &Context, new: &Context) -> bool {
    &&& old.exprs@.len() <= new.exprs@.len() <= u32::MAX
    &&& forall|i: int| 0 <= i < old.exprs@.len() ==> #[trigger] new.exprs@[i] == old.exprs@[i]
    &&& new.values.extends(&old.values)
    &&& new.true_expr_ref == old.true_expr_ref && new.false_expr_ref == old.false_expr_ref
}

/// children of every old node are older than the node (part of node_ok, restated so that it can be used before wf is unfolded)
pub open spec fn old_kids_older(c: &Context) -> bool {
    forall|r: ExprRef, i: int| #[trigger] c.has(r) && 0 <= i < kids(c.nodes()[r]).len() ==> (#[trigger] kids(c.nodes()[r])[i]).0 < r.0 && c.has(kids(c.nodes()[r])[i])
}

/// literal nodes refer to interned values (part of node_ok, restated)
pub open spec fn old_lits_interned(c: &Context) -> bool {
    forall|r: ExprRef| #[trigger] c.has(r) && c.nodes()[r] is BVLiteral ==> c.values.interned(c.nodes()[r]->BVLiteral_0.0)
}

/// `kids` lists exactly the ExprRef fields of a node (used to transfer facts about all children at once)
pub proof fn lemma_kids_cover(n: Expr)
    ensures match n {
        Expr::BVZeroExt { e, .. } | Expr::BVSignExt { e, .. } | Expr::BVSlice { e, .. } | Expr::ArrayConstant { e, .. } => kids(n)[0] == e && kids(n).len() == 1,
        Expr::BVNot(e, _) | Expr::BVNegate(e, _) => kids(n)[0] == e && kids(n).len() == 1,
        Expr::BVSymbol { .. } | Expr::BVLiteral(_) | Expr::ArraySymbol { .. } => kids(n).len() == 0,
        Expr::BVIte { cond, tru, fals } | Expr::ArrayIte { cond, tru, fals } => kids(n)[0] == cond && kids(n)[1] == tru && kids(n)[2] == fals && kids(n).len() == 3,
        Expr::ArrayStore { array, index, data } => kids(n)[0] == array && kids(n)[1] == index && kids(n)[2] == data && kids(n).len() == 3,
        Expr::BVArrayRead { array, index, .. } => kids(n)[0] == array && kids(n)[1] == index && kids(n).len() == 2,
        _ => kids(n).len() == 2,
    },
{
}

//@@GENERATED-LEMMAS@@

pub proof fn lemma_extends(old: &Context, new: &Context)
    requires grows(old, new), old_kids_older(old), old_lits_interned(old),
    ensures new.extends(old),
{
    assert forall|r: ExprRef| #[trigger] old.has(r) implies new.has(r) && new.nodes()[r] == old.nodes()[r]
        && new.den(r) == old.den(r) && new.ty(r) == old.ty(r) by {
        lemma_frame(old, new, r);
    }
}

/// wf gives the two restated facts
pub proof fn lemma_wf_basics(c: &Context)
    requires c.wf(),
    ensures old_kids_older(c), old_lits_interned(c),
{
    reveal(Context::all_nodes_ok);
    assert forall|r: ExprRef, i: int| #[trigger] c.has(r) && 0 <= i < kids(c.nodes()[r]).len() implies
        (#[trigger] kids(c.nodes()[r])[i]).0 < r.0 && c.has(kids(c.nodes()[r])[i]) by {
        assert(c.node_ok(r));
    }
    assert forall|r: ExprRef| #[trigger] c.has(r) && c.nodes()[r] is BVLiteral implies c.values.interned(c.nodes()[r]->BVLiteral_0.0) by {
        assert(c.node_ok(r));
    }
}

/// growing a well-formed context keeps it well-formed, provided the appended nodes are ok
pub proof fn lemma_grow_wf(old: &Context, new: &Context)
    requires old.wf(), grows(old, new), new.rep(),
             forall|r: ExprRef| #[trigger] new.has(r) && !old.has(r) ==> new.node_ok(r),
    ensures new.wf(), new.extends(old),
{
    lemma_wf_basics(old);
    lemma_extends(old, new);
    old.lemma_nodes();
    new.lemma_nodes();
    assert(new.all_nodes_ok()) by {
        reveal(Context::all_nodes_ok);
        assert forall|r: ExprRef| #[trigger] new.has(r) implies new.node_ok(r) by {
            if old.has(r) { lemma_node_ok_transfer(old, new, r); }
        }
    }
    // canonical: one reference per node (the table has no duplicates), one handle per literal (interner invariant)
    assert forall|r: ExprRef| #[trigger] new.has(r) implies new.ref_of(new.nodes()[r]) == r by {
        let r2 = new.ref_of(new.nodes()[r]);
        assert(new.has(r2) && new.nodes()[r2] == new.nodes()[r]);
        assert(new.exprs@[r2.0 - 1] == new.exprs@[r.0 - 1]);
    }
    assert forall|l: BVLitValue| #[trigger] new.lit_interned(l) implies new.lit_of(l.0.width, new.lit_v(l)) == l by {
        let l2 = new.lit_of(l.0.width, new.lit_v(l));
        assert(new.values.interned(l2.0) && l2.0.width == l.0.width && new.values.val(l2.0) == new.values.val(l.0));
    }
}


/// the whole proof obligation of `add_expr` after the table insert: either the node was present (nothing changed) or it was appended
pub proof fn lemma_add_expr(old: &Context, new: &Context, value: Expr, index: usize, fresh: bool)
    requires old.wf(), old.node_typed(value), new.exprs.inv(), new.strings == old.strings, new.values == old.values,
             new.true_expr_ref == old.true_expr_ref, new.false_expr_ref == old.false_expr_ref,
             old.exprs@.contains(value) ==> new.exprs@ == old.exprs@ && index < old.exprs@.len() && old.exprs@[index as int] == value,
             !old.exprs@.contains(value) ==> new.exprs@ == old.exprs@.push(value) && index == old.exprs@.len(),
             index < u32::MAX - 1,
    ensures built(old, new, ExprRef((index + 1) as u32), value, old.node_ty(value), old.node_den(value)),
            old.is_node(value) ==> old.has(ExprRef((index + 1) as u32)) && old.nodes()[ExprRef((index + 1) as u32)] == value,
{
    let r = ExprRef((index + 1) as u32);
    old.lemma_nodes(); new.lemma_nodes();
    old.exprs.ax_table_bound(); new.exprs.ax_table_bound();
    lemma_wf_basics(old);
    assert(grows(old, new));
    if old.exprs@.contains(value) {
        assert forall|q: ExprRef| #[trigger] new.has(q) && !old.has(q) implies new.node_ok(q) by {}
        lemma_grow_wf(old, new);
        assert(old.has(r) && old.nodes()[r] == value);
        old.lemma_node_ok(r);
    } else {
        lemma_extends(old, new);
        lemma_new_node(old, new, value);
        assert forall|q: ExprRef| #[trigger] new.has(q) && !old.has(q) implies new.node_ok(q) by { assert(q == r); }
        lemma_grow_wf(old, new);
        if old.is_node(value) {
            let q = choose|q: ExprRef| #[trigger] old.has(q) && old.nodes()[q] == value;
            assert(old.exprs@[q.0 - 1] == value);
        }
    }
}

/// interning a value only extends the interner: the expression table is untouched and the context stays well-formed
pub proof fn lemma_values_grow(old: &Context, new: &Context)
    requires old.wf(), new.exprs == old.exprs, new.strings == old.strings, new.values.inv(), new.values.extends(&old.values),
             new.true_expr_ref == old.true_expr_ref, new.false_expr_ref == old.false_expr_ref,
    ensures new.wf(), new.extends(old),
{
    old.lemma_nodes(); new.lemma_nodes();
    old.exprs.ax_table_bound();
    assert(grows(old, new));
    assert forall|q: ExprRef| #[trigger] new.has(q) && !old.has(q) implies new.node_ok(q) by {}
    lemma_grow_wf(old, new);
}
