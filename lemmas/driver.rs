// lemmas of unit driver: reachability along the cache chain, and what the cache invariant says about it (all proved)
pub broadcast proof fn lemma_reach_refl(c: Chain, a: ExprRef)
    ensures #[trigger] reach(c, a, a),
{
    assert(reach_n(c, a, a, 0));
}

proof fn lemma_reach_n_push(c: Chain, k: ExprRef, a: ExprRef, b: ExprRef, n: nat)
    requires reach_n(c, k, a, n), c(a) == Some(b),
    ensures reach_n(c, k, b, n + 1),
    decreases n,
{
    if n == 0 {
        assert(reach_n(c, b, b, 0));
    } else {
        lemma_reach_n_push(c, c(k)->Some_0, a, b, (n - 1) as nat);
    }
}

/// one more link at the end
pub broadcast proof fn lemma_reach_push(c: Chain, k: ExprRef, a: ExprRef, b: ExprRef)
    requires #[trigger] reach(c, k, a), c(a) == Some(b),
    ensures #[trigger] reach(c, k, b),
{
    let n = choose|n: nat| reach_n(c, k, a, n);
    lemma_reach_n_push(c, k, a, b, n);
}

/// one link less at the front (the chain is a function: the first link out of a is the one stored at a)
pub broadcast proof fn lemma_reach_pop(c: Chain, a: ExprRef, f: ExprRef, next: ExprRef)
    requires #[trigger] reach(c, a, f), a != f, c(a) == Some(next),
    ensures #[trigger] reach(c, next, f),
{
    let n = choose|n: nat| reach_n(c, a, f, n);
    assert(n > 0);
    assert(reach_n(c, next, f, (n - 1) as nat));
}

proof fn lemma_reach_n_same<M: ExprMap<Option<ExprRef>>>(ctx: &Context, m: &M, a: ExprRef, b: ExprRef, n: nat)
    requires cache_ok(ctx, m), reach_n(chain_of(m), a, b, n), ctx.has(a),
    ensures same(ctx, b, a),
    decreases n,
{
    if n > 0 {
        let v = m.at(a)->Some_0;
        assert(chain_of(m)(a) == m.at(a));
        lemma_reach_n_same(ctx, m, v, b, (n - 1) as nat);
    }
}

/// whatever is reached from `a` through a good cache may stand for `a`
pub broadcast proof fn lemma_reach_same<M: ExprMap<Option<ExprRef>>>(ctx: &Context, m: &M, a: ExprRef, b: ExprRef)
    requires #[trigger] cache_ok(ctx, m), #[trigger] reach(chain_of(m), a, b), ctx.has(a),
    ensures same(ctx, b, a),
{
    let n = choose|n: nat| reach_n(chain_of(m), a, b, n);
    lemma_reach_n_same(ctx, m, a, b, n);
}

/// path compression keeps the cache good: every changed entry points to something that was reachable from its key
pub broadcast proof fn lemma_compress_cache_ok<M: ExprMap<Option<ExprRef>>>(ctx: &Context, m0: &M, m1: &M, res: Option<ExprRef>)
    requires #[trigger] cache_ok(ctx, m0), #[trigger] compressed(m0, m1, res),
    ensures cache_ok(ctx, m1),
{
    assert forall|k: ExprRef| (#[trigger] m1.at(k)) is Some implies ctx.has(k) && same(ctx, m1.at(k)->Some_0, k) by {
        if m1.at(k) != m0.at(k) {
            lemma_reach_same(ctx, m0, k, m1.at(k)->Some_0);
        }
    }
}

/// a chain that goes on has a link
pub broadcast proof fn lemma_reach_next_some(c: Chain, a: ExprRef, f: ExprRef)
    requires #[trigger] reach(c, a, f), a != f,
    ensures c(a) is Some,
{
    let n = choose|n: nat| reach_n(c, a, f, n);
    assert(n > 0);
}

proof fn lemma_closed_reach_n<M: ExprMap<Option<ExprRef>>>(m: &M, a: ExprRef, k: ExprRef, n: nat)
    requires closed(m), m.at(a) is Some, reach_n(chain_of(m), a, k, n),
    ensures m.at(k) is Some,
    decreases n,
{
    if n > 0 {
        let v = m.at(a)->Some_0;
        assert(chain_of(m)(a) == m.at(a));
        lemma_closed_reach_n(m, v, k, (n - 1) as nat);
    }
}

/// in a closed cache a chain that starts at a set key never reaches an unset one
pub proof fn lemma_closed_reach<M: ExprMap<Option<ExprRef>>>(m: &M, a: ExprRef, k: ExprRef)
    requires closed(m), m.at(a) is Some, reach(chain_of(m), a, k),
    ensures m.at(k) is Some,
{
    let n = choose|n: nat| reach_n(chain_of(m), a, k, n);
    lemma_closed_reach_n(m, a, k, n);
}

/// in a closed cache the chain from a set key never hits an unset key
pub broadcast proof fn lemma_closed_reach_unset<M: ExprMap<Option<ExprRef>>>(m: &M, a: ExprRef)
    requires #[trigger] closed(m), m.at(a) is Some, #[trigger] hits_unset(chain_of(m), a),
    ensures false,
{
    let k = choose|k: ExprRef| #[trigger] reach(chain_of(m), a, k) && chain_of(m)(k) is None;
    lemma_closed_reach(m, a, k);
}

pub broadcast proof fn lemma_hits_unset_self(c: Chain, key: ExprRef)
    requires c(key) is None,
    ensures #[trigger] hits_unset(c, key),
{
    assert(reach_n(c, key, key, 0));
    assert(reach(c, key, key));
}

pub broadcast proof fn lemma_hits_unset_at(c: Chain, key: ExprRef, k: ExprRef)
    requires #[trigger] reach(c, key, k), c(k) is None,
    ensures #[trigger] hits_unset(c, key),
{
}

/// one link
pub broadcast proof fn lemma_reach_one(c: Chain, a: ExprRef, b: ExprRef)
    requires c(a) == Some(b),
    ensures #[trigger] reach(c, a, b),
{
    assert(reach_n(c, b, b, 0));
    assert(reach_n(c, a, b, 1));
}

pub broadcast group group_reach { lemma_reach_refl, lemma_reach_one, lemma_reach_push, lemma_reach_pop, lemma_reach_next_some, lemma_hits_unset_self, lemma_hits_unset_at }
