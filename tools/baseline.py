#!/usr/bin/env python3
"""Run the repository's test suite (guard off — there is no guard in /repo) and compare with /root/.vp/BASELINE.json:
every test in stable_pass must pass.  Exit 0 iff so."""
import json, re, subprocess, sys, os
base = json.load(open("/root/.vp/BASELINE.json"))
want = set(base["stable_pass"])
env = dict(os.environ, CARGO_NET_OFFLINE="true")
p = subprocess.run(["cargo", "test", "--workspace", "--no-fail-fast", "--offline"], cwd="/repo", stdout=subprocess.PIPE, stderr=subprocess.STDOUT, text=True, env=env)
out = p.stdout
passed, failed = set(), set()
cur = None
for line in out.splitlines():
    m = re.match(r"\s*Running (unittests )?(\S+) \(target/debug/deps/([A-Za-z0-9_]+)-[0-9a-f]+\)", line)
    if m:
        unit, path, crate = m.group(1), m.group(2), m.group(3).replace("_", "-")
        if unit:
            if path.endswith("main.rs"):
                cur = f"{crate}::bin/{crate}::"
            else:
                cur = f"{crate}::"
        else:
            stem = os.path.splitext(os.path.basename(path))[0]
            # integration test: package is found from the path
            pkg = path.split("/")[0] if "/" in path else crate
            cur = f"{pkg}::{stem}::"
        continue
    m = re.match(r"test (\S+) \.\.\. (ok|FAILED|ignored)", line)
    if m and cur:
        name = cur + m.group(1)
        (passed if m.group(2) == "ok" else failed).add(name)
missing = sorted(want - passed)
# tolerate crate-name spelling differences by suffix match
still = []
for t in missing:
    tail = t.split("::", 1)[1]
    if not any(x.endswith(tail) for x in passed):
        still.append(t)
print(f"baseline: {len(want) - len(still)}/{len(want)} stable tests pass; {len(failed)} other failures (expected: {len(base['always_fail'])} always_fail)")
for t in still:
    print("MISSING/FAILED:", t)
sys.exit(1 if still else 0)
