#!/usr/bin/env python3
"""setup: nothing to build — the framework is python3 + the pre-installed verus / kani / z3.  Verifies the tools answer."""
import shutil, subprocess, sys
ok = True
for t in ("verus", "z3", "cargo"):
    if shutil.which(t) is None:
        print("missing tool:", t); ok = False
sys.exit(0 if ok else 1)
