#!/bin/bash
# confirm_seed.sh <worktree> <seed-id> <property> : confirm a seeded change (compiles, suite unchanged, demo fails with / passes without)
# and store it under /verif/seeded/<seed-id>/
set -u
WT=$1; ID=$2; PROP=$3
export CARGO_NET_OFFLINE=true CARGO_TARGET_DIR=$WT/target
cd $WT || exit 2
DEMO=$(git status --short | grep '^??' | awk '{print $2}' | grep -E 'seeded_demo|demo' | head -1)
echo "demo file: $DEMO"
git diff -- . ':!*seeded_demo*' > /tmp/$ID.patch
[ -s /tmp/$ID.patch ] || { echo "no source change"; exit 2; }
# suite with the change (demo moved aside)
mkdir -p /tmp/$ID.aside; for f in $DEMO; do mkdir -p /tmp/$ID.aside/$(dirname $f); mv $f /tmp/$ID.aside/$f; done
cargo test --workspace --no-fail-fast --offline > /tmp/$ID.suite.log 2>&1
PASS=$(grep -c '^test .* \.\.\. ok' /tmp/$ID.suite.log); FAIL=$(grep -c '^test .* \.\.\. FAILED' /tmp/$ID.suite.log)
echo "suite with change: $PASS ok, $FAIL failed"
python3 - "$ID" <<'PY'
import json,re,sys
log=open(f"/tmp/{sys.argv[1]}.suite.log").read()
ok=set(re.findall(r"^test (\S+) \.\.\. ok", log, re.M))
want=[t.split("::",1)[1] for t in json.load(open("/root/.vp/BASELINE.json"))["stable_pass"]]
missing=[t for t in want if not any(t.endswith(o) or o.endswith(t.split("::",1)[-1]) for o in ok)]
print("stable tests no longer passing:", missing)
PY
for f in $DEMO; do mv /tmp/$ID.aside/$f $f; done
T=$(basename $DEMO .rs)
cargo test --offline -p patronus --test $T > /tmp/$ID.demo_with.log 2>&1; W=$?
# NOTE: `git stash` is shared between worktrees; use reverse-apply of the saved patch instead
git apply -R /tmp/$ID.patch
cargo test --offline -p patronus --test $T > /tmp/$ID.demo_without.log 2>&1; WO=$?
git apply /tmp/$ID.patch
echo "demo with change exit=$W (want !=0), without change exit=$WO (want 0)"
mkdir -p /verif/seeded/$ID
cp /tmp/$ID.patch /verif/seeded/$ID/patch.diff; cp $DEMO /verif/seeded/$ID/
tail -5 /tmp/$ID.demo_with.log
