# generates node_typed / node_ty / node_den / kids text from one table
V = [
 # (pattern, kids, typed, ty, den)
 ("Expr::BVSymbol { name, width }", [], "width >= 1", "Type::BV(width)", "d_sym(name.0 as int, true, width as int, 0)"),
 ("Expr::BVLiteral(l)", [], "l.0.width >= 1 && self.lit_interned(l) && v_fits(l.0.width as int, self.lit_v(l))", "Type::BV(l.0.width)", "d_lit(l.0.width as int, self.lit_v(l))"),
 ("Expr::BVZeroExt { e, by, width }", ["e"], "self.is_bv(e) && width == self.w(e) + by", "Type::BV(width)", "d_zext(self.den(e), by as int)"),
 ("Expr::BVSignExt { e, by, width }", ["e"], "self.is_bv(e) && width == self.w(e) + by", "Type::BV(width)", "d_sext(self.den(e), by as int)"),
 ("Expr::BVSlice { e, hi, lo }", ["e"], "self.is_bv(e) && lo <= hi && hi < self.w(e)", "Type::BV((hi - lo + 1) as u32)", "d_slice(self.den(e), hi as int, lo as int)"),
 ("Expr::BVNot(e, w)", ["e"], "self.bv(e, w)", "Type::BV(w)", "d_not(self.den(e))"),
 ("Expr::BVNegate(e, w)", ["e"], "self.bv(e, w)", "Type::BV(w)", "d_neg(self.den(e))"),
 ("Expr::BVEqual(a, b)", ["a","b"], "self.is_bv(a) && self.is_bv(b) && self.w(a) == self.w(b)", "Type::BV(1)", "d_eq(self.den(a), self.den(b))"),
 ("Expr::BVImplies(a, b)", ["a","b"], "self.bv(a, 1) && self.bv(b, 1)", "Type::BV(1)", "d_implies(self.den(a), self.den(b))"),
 ("Expr::BVGreater(a, b)", ["a","b"], "self.is_bv(a) && self.is_bv(b) && self.w(a) == self.w(b)", "Type::BV(1)", "d_ugt(self.den(a), self.den(b))"),
 ("Expr::BVGreaterSigned(a, b, w)", ["a","b"], "self.bv(a, w) && self.bv(b, w)", "Type::BV(1)", "d_sgt(self.den(a), self.den(b))"),
 ("Expr::BVGreaterEqual(a, b)", ["a","b"], "self.is_bv(a) && self.is_bv(b) && self.w(a) == self.w(b)", "Type::BV(1)", "d_uge(self.den(a), self.den(b))"),
 ("Expr::BVGreaterEqualSigned(a, b, w)", ["a","b"], "self.bv(a, w) && self.bv(b, w)", "Type::BV(1)", "d_sge(self.den(a), self.den(b))"),
 ("Expr::BVConcat(a, b, w)", ["a","b"], "self.is_bv(a) && self.is_bv(b) && w == self.w(a) + self.w(b)", "Type::BV(w)", "d_concat(self.den(a), self.den(b))"),
]
for v, op in [("BVAnd","and"),("BVOr","or"),("BVXor","xor"),("BVShiftLeft","shl"),("BVArithmeticShiftRight","ashr"),("BVShiftRight","lshr"),
              ("BVAdd","add"),("BVMul","mul"),("BVSignedDiv","sdiv"),("BVUnsignedDiv","udiv"),("BVSignedMod","smod"),("BVSignedRem","srem"),
              ("BVUnsignedRem","urem"),("BVSub","sub")]:
    V.append((f"Expr::{v}(a, b, w)", ["a","b"], "self.bv(a, w) && self.bv(b, w)", "Type::BV(w)", f"d_{op}(self.den(a), self.den(b))"))
V += [
 ("Expr::BVArrayRead { array, index, width }", ["array","index"], "self.is_arr(array) && self.bv(index, self.aty(array).index_width) && width == self.aty(array).data_width", "Type::BV(width)", "d_select(self.den(array), self.den(index))"),
 ("Expr::BVIte { cond, tru, fals }", ["cond","tru","fals"], "self.bv(cond, 1) && self.is_bv(tru) && self.is_bv(fals) && self.ty(tru) == self.ty(fals)", "self.ty(fals)", "d_ite(self.den(cond), self.den(tru), self.den(fals))"),
 ("Expr::ArraySymbol { name, index_width, data_width }", [], "index_width >= 1 && data_width >= 1", "Type::Array(ArrayType { index_width, data_width })", "d_sym(name.0 as int, false, data_width as int, index_width as int)"),
 ("Expr::ArrayConstant { e, index_width, data_width }", ["e"], "self.bv(e, data_width) && index_width >= 1", "Type::Array(ArrayType { index_width, data_width })", "d_const_array(index_width as int, self.den(e))"),
 ("Expr::ArrayEqual(a, b)", ["a","b"], "self.is_arr(a) && self.is_arr(b) && self.ty(a) == self.ty(b)", "Type::BV(1)", "d_array_eq(self.den(a), self.den(b))"),
 ("Expr::ArrayStore { array, index, data }", ["array","index","data"], "self.is_arr(array) && self.bv(index, self.aty(array).index_width) && self.bv(data, self.aty(array).data_width)", "self.ty(array)", "d_store(self.den(array), self.den(index), self.den(data))"),
 ("Expr::ArrayIte { cond, tru, fals }", ["cond","tru","fals"], "self.bv(cond, 1) && self.is_arr(tru) && self.is_arr(fals) && self.ty(tru) == self.ty(fals)", "self.ty(fals)", "d_ite(self.den(cond), self.den(tru), self.den(fals))"),
]
def fn(name, ret, idx, doc):
    s = f"    /// {doc}\n    pub open spec fn {name}(&self, n: Expr) -> {ret} {{\n        match n {{\n"
    for row in V:
        s += f"            {row[0]} => {row[idx]},\n"
    return s + "        }\n    }\n\n"
kids = "/// operands of a node, in the order `for_each_child` (foreach.rs) visits them\npub open spec fn kids(n: Expr) -> Seq<ExprRef> {\n    match n {\n"
for row in V:
    kids += f"        {row[0]} => seq![{', '.join(row[1])}],\n"
kids += "    }\n}\n\n"
methods = (fn("node_typed", "bool", 2, "node-level typing rule of a node *value* (types.rs `type_check`, stated over `ty`); children must be present")
  + fn("node_ty", "Type", 3, "type of a well-typed node value (types.rs `get_type`; the ite/store recursion is `ty` of the child)")
  + fn("node_den", "Den", 4, "one-step unfolding of the denotation: the SMT-LIB operator of the node applied to the denotations of its children"))
methods += '''    /// a node's type, denotation and sort are those of its node value; its children are older (DAG order)
    pub open spec fn node_ok(&self, r: ExprRef) -> bool {
        &&& self.den_sorted(r)
        &&& self.node_typed(self.nodes()[r])
        &&& self.ty(r) == self.node_ty(self.nodes()[r])
        &&& self.den(r) == self.node_den(self.nodes()[r])
        &&& forall|i: int| 0 <= i < kids(self.nodes()[r]).len() ==> (#[trigger] kids(self.nodes()[r])[i]).0 < r.0 && self.has(kids(self.nodes()[r])[i])
    }

'''
p='/verif/prelude/ctx.rs'
s=open(p).read()
start=s.index('    /// node-level typing rule (types.rs `type_check`')
end=s.index('    /// every node is well-typed and denotes what its operator says.')
s=s[:start]+methods+s[end:]
s=s.replace('#[verifier::external_body]\npub struct Context { _p: u8 }', kids+'#[verifier::external_body]\npub struct Context { _p: u8 }')
open(p,'w').write(s)
