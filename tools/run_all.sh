#!/bin/bash
# runs every claimed check (quick tier by default) on /repo's working tree, validates the evidence files against the schema
cd "$(dirname "$0")/.."
tier=${1:-quick}
rc=0
for id in $(python3 -c "import json;print(' '.join(c['property_id'] for c in json.load(open('MANIFEST.json'))['checks']))"); do
  out=$(./check $id --tier $tier 2>&1); e=$?
  echo "$id exit=$e $(echo "$out" | tail -1)"
  [ $e -ne 0 ] && { rc=1; echo "$out" | tail -5; }
done
PYV=python3; [ -x /opt/veriftools/pyvenv/bin/python ] && PYV=/opt/veriftools/pyvenv/bin/python
$PYV - <<'PY'
import json, glob, jsonschema
sch = json.load(open('/root/.vp/EVIDENCE.schema.json'))
for f in sorted(glob.glob('evidence/*.json')):
    d = json.load(open(f)); jsonschema.validate(d, sch)
    c = d['coverage']
    flag = '' if c.get('discharged') == c.get('obligations') else '  <-- discharged != obligations'
    print(f, c.get("obligations"), c.get("discharged"), "bounded", c.get("bounded_checks_passed"), "/", c.get("bounded_checks"), flag)
PY
exit $rc
