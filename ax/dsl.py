"""A tiny term language for bit-vector identities.

One source, two renderings:
  * Verus: a `broadcast proof fn ax_<name>(..) requires <side conditions> ensures #[trigger] LHS == RHS { admit(); }`
    over the abstract denotation sort `Den` (these are the *assumed* algebra axioms of DESIGN §3);
  * SMT-LIB QF_BV: for every concrete assignment of the integer parameters up to a bound, the
    validity query `(not (= LHS RHS))` that z3 must answer `unsat` (the AX audit).

Integer expressions (widths, indices, shift amounts) are strings in a syntax shared by Verus and
Python: + - * < <= == != >= > && || ! and the functions pow2i(k), v_ones(w).
"""
from __future__ import annotations
import itertools
from typing import Dict, List, Optional, Tuple


def _py(expr: str) -> str:
    return expr.replace("&&", " and ").replace("||", " or ").replace("!=", "__NE__").replace("!", " not ").replace("__NE__", "!=")


def ev(expr, env: Dict[str, int]) -> int:
    if isinstance(expr, int):
        return expr
    g = {"pow2i": lambda k: 1 << k, "v_ones": lambda w: (1 << w) - 1, "true": True, "false": False}
    return eval(_py(expr), g, dict(env))


def bvconst(v: int, w: int) -> str:
    assert w >= 1 and 0 <= v < (1 << w), (v, w)
    return f"(_ bv{v} {w})"


class Term:
    pass


# ------------------------------------------------------------------ value-level (literal) terms
class VTerm:
    """denotes a natural number that is the value of a literal of a known width"""


class VNat(VTerm):
    """an integer expression over the integer parameters (0, 1, k, v_ones(w), pow2i(k), ...)"""
    def __init__(self, e):
        self.e = str(e)
    def verus(self):
        return f"({self.e})"
    def smt(self, w, env, syms):
        v = ev(self.e, env)
        if not (0 <= v < (1 << w)):
            raise Skip()
        return bvconst(v, w)


class VVar(VTerm):
    """a symbolic literal value (an arbitrary value that fits the width it is used at)"""
    def __init__(self, name):
        self.name = name
    def verus(self):
        return self.name
    def smt(self, w, env, syms):
        syms[self.name] = w if self.name not in syms else syms[self.name]
        if syms[self.name] != w:
            raise ValueError(f"value variable {self.name} used at two widths")
        return self.name


_VOPS = {
    # name: (smt op, arity kinds)   all operands share width w unless stated
    "v_and": "bvand", "v_or": "bvor", "v_xor": "bvxor", "v_add": "bvadd", "v_sub": "bvsub", "v_mul": "bvmul",
    "v_shl": "bvshl", "v_lshr": "bvlshr", "v_ashr": "bvashr", "v_not": "bvnot", "v_neg": "bvneg",
}


class VOp(VTerm):
    """v_op(w, a, b): same-width value operation; result width w"""
    def __init__(self, op, w, *args):
        self.op, self.w, self.args = op, str(w), args
    def verus(self):
        return f"{self.op}({self.w}, {', '.join(a.verus() for a in self.args)})"
    def smt(self, w, env, syms):
        assert ev(self.w, env) == w
        return f"({_VOPS[self.op]} {' '.join(a.smt(w, env, syms) for a in self.args)})"


class VConcat(VTerm):
    def __init__(self, wa, a, wb, b):
        self.wa, self.a, self.wb, self.b = str(wa), a, str(wb), b
    def verus(self):
        return f"v_concat({self.wa}, {self.a.verus()}, {self.wb}, {self.b.verus()})"
    def smt(self, w, env, syms):
        wa, wb = ev(self.wa, env), ev(self.wb, env)
        assert wa + wb == w
        return f"(concat {self.a.smt(wa, env, syms)} {self.b.smt(wb, env, syms)})"


class VSlice(VTerm):
    def __init__(self, w, a, hi, lo):
        self.w, self.a, self.hi, self.lo = str(w), a, str(hi), str(lo)
    def verus(self):
        return f"v_slice({self.w}, {self.a.verus()}, {self.hi}, {self.lo})"
    def smt(self, w, env, syms):
        hi, lo = ev(self.hi, env), ev(self.lo, env)
        assert hi - lo + 1 == w
        return f"((_ extract {hi} {lo}) {self.a.smt(ev(self.w, env), env, syms)})"


class VExt(VTerm):
    def __init__(self, kind, w, a, by):
        self.kind, self.w, self.a, self.by = kind, str(w), a, str(by)
    def verus(self):
        return f"v_{self.kind}({self.w}, {self.a.verus()}, {self.by})"
    def smt(self, w, env, syms):
        wi, by = ev(self.w, env), ev(self.by, env)
        assert wi + by == w
        op = "zero_extend" if self.kind == "zext" else "sign_extend"
        return f"((_ {op} {by}) {self.a.smt(wi, env, syms)})"


class VBool(VTerm):
    """b2n(predicate) where the predicate compares two value terms of width w"""
    def __init__(self, pred, w, a, b):
        self.pred, self.w, self.a, self.b = pred, str(w), a, b
    def verus(self):
        return f"b2n({self.pred}({self.w}, {self.a.verus()}, {self.b.verus()}))"
    def smt(self, w, env, syms):
        assert w == 1
        wi = ev(self.w, env)
        op = {"v_eq": "=", "v_ugt": "bvugt", "v_uge": "bvuge", "v_sgt": "bvsgt", "v_sge": "bvsge"}[self.pred]
        return f"(ite ({op} {self.a.smt(wi, env, syms)} {self.b.smt(wi, env, syms)}) #b1 #b0)"


class Skip(Exception):
    """benign: a width is 0 or a numeral does not fit its width — no such denotation exists"""


class DomainError(Exception):
    """the side condition admits an instance that is not a well-sorted SMT-LIB term: the axiom is under-constrained"""


# ------------------------------------------------------------------ denotation-level terms
class Var(Term):
    def __init__(self, name, w):
        self.name, self.w = name, str(w)
    def verus(self):
        return self.name
    def width(self, env):
        return ev(self.w, env)
    def smt(self, env, syms):
        w = self.width(env)
        if w < 1:
            raise Skip()
        if syms.setdefault(self.name, w) != w:
            raise ValueError(f"{self.name} used at two widths")
        return self.name
    def vars(self):
        return {self.name: self.w}


class Lit(Term):
    def __init__(self, w, v):
        self.w = str(w)
        self.v = v if isinstance(v, VTerm) else VNat(v)
    def verus(self):
        return f"d_lit({self.w}, {self.v.verus()})"
    def width(self, env):
        return ev(self.w, env)
    def smt(self, env, syms):
        w = self.width(env)
        if w < 1:
            raise Skip()
        return self.v.smt(w, env, syms)
    def vars(self):
        return {}


_UN = {"not": "bvnot", "neg": "bvneg"}
_BIN_SAME = {"and": "bvand", "or": "bvor", "xor": "bvxor", "add": "bvadd", "sub": "bvsub", "mul": "bvmul",
             "shl": "bvshl", "lshr": "bvlshr", "ashr": "bvashr",
             "udiv": "bvudiv", "urem": "bvurem", "sdiv": "bvsdiv", "srem": "bvsrem", "smod": "bvsmod"}
_BIN_PRED = {"eq": "=", "ugt": "bvugt", "uge": "bvuge", "sgt": "bvsgt", "sge": "bvsge"}


class Op(Term):
    def __init__(self, op, *args):
        self.op, self.args = op, args
    def verus(self):
        return f"d_{self.op}({', '.join(a.verus() for a in self.args)})"
    def width(self, env):
        if self.op in _UN or self.op in _BIN_SAME:
            return self.args[0].width(env)
        if self.op in _BIN_PRED or self.op == "implies":
            return 1
        if self.op == "concat":
            return self.args[0].width(env) + self.args[1].width(env)
        if self.op == "ite":
            return self.args[1].width(env)
        raise KeyError(self.op)
    def smt(self, env, syms):
        a = [x.smt(env, syms) for x in self.args]
        ws = [x.width(env) for x in self.args]
        if self.op in _UN:
            return f"({_UN[self.op]} {a[0]})"
        if self.op in _BIN_SAME:
            assert ws[0] == ws[1], (self.op, ws)
            return f"({_BIN_SAME[self.op]} {a[0]} {a[1]})"
        if self.op in _BIN_PRED:
            assert ws[0] == ws[1], (self.op, ws)
            return f"(ite ({_BIN_PRED[self.op]} {a[0]} {a[1]}) #b1 #b0)"
        if self.op == "implies":
            assert ws == [1, 1]
            return f"(bvor (bvnot {a[0]}) {a[1]})"
        if self.op == "concat":
            return f"(concat {a[0]} {a[1]})"
        if self.op == "ite":
            assert ws[0] == 1 and ws[1] == ws[2], ws
            return f"(ite (= {a[0]} #b1) {a[1]} {a[2]})"
        raise KeyError(self.op)
    def vars(self):
        d = {}
        for x in self.args:
            d.update(x.vars())
        return d


class Slice(Term):
    def __init__(self, x, hi, lo):
        self.x, self.hi, self.lo = x, str(hi), str(lo)
    def verus(self):
        return f"d_slice({self.x.verus()}, {self.hi}, {self.lo})"
    def width(self, env):
        return ev(self.hi, env) - ev(self.lo, env) + 1
    def smt(self, env, syms):
        hi, lo = ev(self.hi, env), ev(self.lo, env)
        xs = self.x.smt(env, syms)
        if not (0 <= lo <= hi < self.x.width(env)):
            raise DomainError(f"extract {hi} {lo} of width {self.x.width(env)}")
        return f"((_ extract {hi} {lo}) {xs})"
    def vars(self):
        return self.x.vars()


class Ext(Term):
    def __init__(self, kind, x, by):
        self.kind, self.x, self.by = kind, x, str(by)
    def verus(self):
        return f"d_{self.kind}({self.x.verus()}, {self.by})"
    def width(self, env):
        return self.x.width(env) + ev(self.by, env)
    def smt(self, env, syms):
        by = ev(self.by, env)
        xs = self.x.smt(env, syms)
        if by < 0:
            raise DomainError(f"extend by {by}")
        op = "zero_extend" if self.kind == "zext" else "sign_extend"
        return f"((_ {op} {by}) {xs})"
    def vars(self):
        return self.x.vars()


class Axiom:
    def __init__(self, name, ints: str, lhs: Term, rhs: Term, cond: str = "true", vals: str = "",
                 kind: str = "algebra", note: str = "", extra_trigger: Optional[str] = None):
        """ints: space separated integer parameter names; the first ones are usually widths.
        vals: space separated symbolic literal-value names (VVar)."""
        self.name, self.ints, self.lhs, self.rhs = name, ints.split(), lhs, rhs
        self.cond, self.vals, self.kind, self.note = cond, vals.split(), kind, note

    # ---------------------------------------------------------------- Verus
    def verus(self) -> str:
        import re
        dens = {}
        dens.update(self.lhs.vars()); dens.update(self.rhs.vars())
        lhs_dens = self.lhs.vars()
        lhs_t = self.lhs.verus()
        rhs_t = self.rhs.verus()
        idents = set(re.findall(r"[A-Za-z_][A-Za-z0-9_]*", lhs_t))
        subst = {}
        for p_ in self.ints + self.vals:
            if p_ in idents:
                continue
            cands = [d for d, w in lhs_dens.items() if w == p_]
            if not cands:
                raise RuntimeError(f"axiom {self.name}: parameter {p_} is not covered by the left-hand side")
            subst[p_] = f"d_w({cands[0]})"
        def sub(t):
            return re.sub(r"\b[A-Za-z_][A-Za-z0-9_]*\b", lambda m: subst.get(m.group(0), m.group(0)), t)
        params = [f"{d}: Den" for d in dens] + [f"{i}: int" for i in self.ints + self.vals if i not in subst]
        req = []
        for d, w in dens.items():
            r = f"d_w({d}) == {sub(w)}"
            if r != f"d_w({d}) == d_w({d})":
                req.append(r)
        if self.cond != "true":
            req.append(sub(self.cond))
        s = f"pub broadcast proof fn ax_{self.name}({', '.join(params)})\n"
        if req:
            s += "    requires " + ", ".join(req) + ",\n"
        s += f"    ensures #[trigger] {sub(lhs_t)} == {sub(rhs_t)},\n{{ admit(); }}\n"
        return s

    # ---------------------------------------------------------------- SMT audit
    def instances(self, bound: int):
        """yield (env, smt_query_text) for every assignment of the integer parameters in 0..bound that
        satisfies the side condition and lies in the domain of both sides."""
        rng = range(0, bound + 1)
        for tup in itertools.product(rng, repeat=len(self.ints)):
            env = dict(zip(self.ints, tup))
            try:
                if not ev(self.cond, env):
                    continue
                syms: Dict[str, int] = {}
                wl, wr = self.lhs.width(env), self.rhs.width(env)
                l = self.lhs.smt(env, syms)
                r = self.rhs.smt(env, syms)
            except Skip:
                continue
            except (AssertionError, ValueError, ZeroDivisionError, DomainError) as e:
                raise RuntimeError(f"axiom {self.name} ill-formed at {env}: {e!r}")
            if wl != wr or wl < 1:
                raise RuntimeError(f"axiom {self.name}: width mismatch {wl} vs {wr} at {env}")
            decls = "".join(f"(declare-const {n} (_ BitVec {w}))" for n, w in syms.items())
            yield env, f"(push){decls}(assert (not (= {l} {r})))(check-sat)(pop)"
