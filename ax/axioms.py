"""The bit-vector identities assumed by the Verus units (DESIGN §3), written once in the DSL of dsl.py.

kind:
  algebra     - a theorem of SMT-LIB FixedSizeBitVectors for every width; audited by z3 up to a width bound
  definition  - connects the denotation layer to the literal-value layer (d_op(lit, lit) == lit(v_op)); the
                v_* functions are *defined* by these equations, so the audit of such an axiom is trivial; what
                ties v_* to the code that runs is the Kani kernel check of the baa operations (C06)
"""
from .dsl import *

x = Var("x", "w"); y = Var("y", "w"); z = Var("z", "w")
c1 = Var("c", "1")
p = Var("p", "1"); q = Var("q", "1")
a = VVar("a"); b = VVar("b")
xa = Var("xa", "wa"); xb = Var("xb", "wb"); xc = Var("xc", "wc")


def L(w, v):
    return Lit(w, v)


AXIOMS = []


def ax(*args, **kw):
    AXIOMS.append(Axiom(*args, **kw))


# ---------------------------------------------------------------------------------- commutativity
for op in ("and", "or", "xor", "add", "mul", "eq"):
    ax(f"{op}_comm", "w", Op(op, x, y), Op(op, y, x))

# ---------------------------------------------------------------------------------- and / or / xor
ax("and_idem", "w", Op("and", x, x), x)
ax("or_idem", "w", Op("or", x, x), x)
ax("xor_self", "w", Op("xor", x, x), L("w", 0), cond="w >= 1")
ax("and_zero", "w v", Op("and", x, L("w", "v")), L("w", "v"), cond="v == 0")
ax("and_ones", "w v", Op("and", x, L("w", "v")), x, cond="v == v_ones(w)")
ax("or_zero", "w v", Op("or", x, L("w", "v")), x, cond="v == 0")
ax("or_ones", "w v", Op("or", x, L("w", "v")), L("w", "v"), cond="v == v_ones(w)")
ax("xor_zero", "w v", Op("xor", x, L("w", "v")), x, cond="v == 0")
ax("xor_ones", "w v", Op("xor", x, L("w", "v")), Op("not", x), cond="v == v_ones(w)")
ax("and_not_self_l", "w", Op("and", Op("not", x), x), L("w", 0))
ax("and_not_self_r", "w", Op("and", x, Op("not", x)), L("w", 0))
ax("or_not_self_l", "w", Op("or", Op("not", x), x), L("w", "v_ones(w)"))
ax("or_not_self_r", "w", Op("or", x, Op("not", x)), L("w", "v_ones(w)"))
ax("xor_not_self_l", "w", Op("xor", Op("not", x), x), L("w", "v_ones(w)"))
ax("xor_not_self_r", "w", Op("xor", x, Op("not", x)), L("w", "v_ones(w)"))
ax("demorgan_and", "w", Op("and", Op("not", x), Op("not", y)), Op("not", Op("or", x, y)))
ax("demorgan_or", "w", Op("or", Op("not", x), Op("not", y)), Op("not", Op("and", x, y)))
ax("not_not", "w", Op("not", Op("not", x)), x)
ax("implies_def", "", Op("implies", p, q), Op("or", Op("not", p), q))
# (xa # xb) & mask == (xa & mask_hi) # (xb & mask_lo)
ax("and_concat_mask", "wa wb", Op("and", Op("concat", xa, xb), L("wa + wb", a)),
   Op("concat", Op("and", xa, L("wa", VSlice("wa + wb", a, "wa + wb - 1", "wb"))),
      Op("and", xb, L("wb", VSlice("wa + wb", a, "wb - 1", "0")))), vals="a", cond="wa >= 1 && wb >= 1")

# ---------------------------------------------------------------------------------- ite
ax("ite_same", "w", Op("ite", c1, x, x), x)
ax("ite_lit_true", "w v", Op("ite", L(1, "v"), x, y), x, cond="v == 1")
ax("ite_lit_false", "w v", Op("ite", L(1, "v"), x, y), y, cond="v == 0")
ax("ite_1_0", "vt vf", Op("ite", c1, L(1, "vt"), L(1, "vf")), c1, cond="vt == 1 && vf == 0")
ax("ite_0_1", "vt vf", Op("ite", c1, L(1, "vt"), L(1, "vf")), Op("not", c1), cond="vt == 0 && vf == 1")
ax("ite_1_b", "vt", Op("ite", c1, L(1, "vt"), q), Op("or", c1, q), cond="vt == 1")
ax("ite_0_b", "vt", Op("ite", c1, L(1, "vt"), q), Op("and", Op("not", c1), q), cond="vt == 0")
ax("ite_a_1", "vf", Op("ite", c1, p, L(1, "vf")), Op("or", Op("not", c1), p), cond="vf == 1")
ax("ite_a_0", "vf", Op("ite", c1, p, L(1, "vf")), Op("and", c1, p), cond="vf == 0")

# ---------------------------------------------------------------------------------- equality
ax("eq_self", "w", Op("eq", x, x), L(1, 1))
ax("eq_true", "v", Op("eq", p, L(1, "v")), p, cond="v == 1")
ax("eq_false", "v", Op("eq", p, L(1, "v")), Op("not", p), cond="v == 0")
ax("eq_concat", "wa wb", Op("eq", Op("concat", xa, xb), Var("o", "wa + wb")),
   Op("and", Op("eq", xa, Slice(Var("o", "wa + wb"), "wa + wb - 1", "wb")),
      Op("eq", xb, Slice(Var("o", "wa + wb"), "wb - 1", "0"))), cond="wa >= 1 && wb >= 1")

# ---------------------------------------------------------------------------------- uge
ax("uge_ones_l", "w v", Op("uge", L("w", "v"), x), L(1, 1), cond="v == v_ones(w)")
ax("uge_zero_r", "w v", Op("uge", x, L("w", "v")), L(1, 1), cond="v == 0")
ax("uge_ones_r", "w v", Op("uge", x, L("w", "v")), Op("eq", x, L("w", "v")), cond="v == v_ones(w)")

# ---------------------------------------------------------------------------------- extension
ax("zext_zero", "w by", Ext("zext", x, "by"), x, cond="by == 0")
ax("sext_zero", "w by", Ext("sext", x, "by"), x, cond="by == 0")
ax("zext_as_concat", "w by", Ext("zext", x, "by"), Op("concat", L("by", 0), x), cond="by >= 1")
# the writer spells the zero extension of a Bool as (ite c #b0..01 #b0..00)
ax("zext_bool_as_ite", "by v1 v0", Op("ite", c1, L("by + 1", "v1"), L("by + 1", "v0")), Ext("zext", c1, "by"), cond="by >= 1 && v1 == 1 && v0 == 0")
ax("sext_bool_as_ite", "by v1 v0", Op("ite", c1, L("by + 1", "v1"), L("by + 1", "v0")), Ext("sext", c1, "by"), cond="by >= 1 && v1 == v_ones(by + 1) && v0 == 0")
ax("sext_sext", "w by iby", Ext("sext", Ext("sext", x, "iby"), "by"), Ext("sext", x, "by + iby"), cond="by >= 0 && iby >= 0")

# ---------------------------------------------------------------------------------- concat
ax("concat_assoc", "wa wb wc", Op("concat", Op("concat", xa, xb), xc), Op("concat", xa, Op("concat", xb, xc)))
ax("concat_assoc_rev", "wa wb wc", Op("concat", xa, Op("concat", xb, xc)), Op("concat", Op("concat", xa, xb), xc))
ax("concat_adjacent_slices", "w ha la hb lb", Op("concat", Slice(x, "ha", "la"), Slice(x, "hb", "lb")), Slice(x, "ha", "lb"),
   cond="la == hb + 1 && lb <= hb && la <= ha && ha < w")

# ---------------------------------------------------------------------------------- slice
ax("slice_full", "w hi lo", Slice(x, "hi", "lo"), x, cond="lo == 0 && hi + 1 == w")
ax("slice_slice", "w hi lo ihi ilo", Slice(Slice(x, "ihi", "ilo"), "hi", "lo"), Slice(x, "hi + ilo", "lo + ilo"),
   cond="ilo <= ihi && ihi < w && lo <= hi && hi <= ihi - ilo")
ax("slice_concat_lo", "wa wb hi lo", Slice(Op("concat", xa, xb), "hi", "lo"), Slice(xb, "hi", "lo"), cond="lo <= hi && hi < wb")
ax("slice_concat_hi", "wa wb hi lo", Slice(Op("concat", xa, xb), "hi", "lo"), Slice(xa, "hi - wb", "lo - wb"),
   cond="lo <= hi && lo >= wb && hi < wa + wb")
ax("slice_concat_both", "wa wb hi lo", Slice(Op("concat", xa, xb), "hi", "lo"),
   Op("concat", Slice(xa, "hi - wb", "0"), Slice(xb, "wb - 1", "lo")), cond="lo < wb && hi >= wb && hi < wa + wb")
ax("slice_sext_ext", "w by hi lo", Slice(Ext("sext", x, "by"), "hi", "lo"), Ext("sext", Slice(x, "w - 1", "w - 1"), "hi - lo"),
   cond="lo >= w && lo <= hi && hi < w + by")
ax("slice_sext_orig", "w by hi lo", Slice(Ext("sext", x, "by"), "hi", "lo"), Slice(x, "hi", "lo"), cond="lo <= hi && hi < w && by >= 0")
ax("slice_sext_both", "w by hi lo", Slice(Ext("sext", x, "by"), "hi", "lo"), Ext("sext", Slice(x, "w - 1", "lo"), "hi - w + 1"),
   cond="lo < w && hi >= w && hi < w + by")
ax("slice_ite", "w hi lo", Slice(Op("ite", c1, x, y), "hi", "lo"), Op("ite", c1, Slice(x, "hi", "lo"), Slice(y, "hi", "lo")),
   cond="lo <= hi && hi < w")
ax("slice_not", "w hi lo", Slice(Op("not", x), "hi", "lo"), Op("not", Slice(x, "hi", "lo")), cond="lo <= hi && hi < w")
for op in ("and", "or", "xor"):
    ax(f"slice_{op}", "w hi lo", Slice(Op(op, x, y), "hi", "lo"), Op(op, Slice(x, "hi", "lo"), Slice(y, "hi", "lo")),
       cond="lo <= hi && hi < w")
ax("slice_neg_low", "w hi lo", Slice(Op("neg", x), "hi", "lo"), Op("neg", Slice(x, "hi", "lo")), cond="lo == 0 && hi < w")
for op in ("add", "sub", "mul"):
    ax(f"slice_{op}_low", "w hi lo", Slice(Op(op, x, y), "hi", "lo"), Op(op, Slice(x, "hi", "lo"), Slice(y, "hi", "lo")),
       cond="lo == 0 && hi < w")

# ---------------------------------------------------------------------------------- shifts by a literal amount k
ax("shl_ge_width", "w k", Op("shl", x, L("w", "k")), L("w", 0), cond="k >= w")
ax("shl_zero", "w k", Op("shl", x, L("w", "k")), x, cond="k == 0")
ax("shl_lit", "w k", Op("shl", x, L("w", "k")), Op("concat", Slice(x, "w - 1 - k", "0"), L("k", 0)), cond="0 < k && k < w")
ax("lshr_ge_width", "w k", Op("lshr", x, L("w", "k")), L("w", 0), cond="k >= w")
ax("lshr_zero", "w k", Op("lshr", x, L("w", "k")), x, cond="k == 0")
ax("lshr_lit", "w k", Op("lshr", x, L("w", "k")), Ext("zext", Slice(x, "w - 1", "k"), "k"), cond="0 < k && k < w")
ax("ashr_ge_width", "w k", Op("ashr", x, L("w", "k")), Ext("sext", Slice(x, "w - 1", "w - 1"), "w - 1"), cond="k >= w")
ax("ashr_zero", "w k", Op("ashr", x, L("w", "k")), x, cond="k == 0")
ax("ashr_lit", "w k", Op("ashr", x, L("w", "k")), Ext("sext", Slice(x, "w - 1", "k"), "k"), cond="0 < k && k < w")

# ---------------------------------------------------------------------------------- add / mul
ax("add_1bit", "", Op("add", p, q), Op("xor", p, q))
ax("mul_1bit", "", Op("mul", p, q), Op("and", p, q))
ax("add_zero", "w v", Op("add", x, L("w", "v")), x, cond="v == 0")
ax("mul_zero", "w v", Op("mul", x, L("w", "v")), L("w", "v"), cond="v == 0")
ax("mul_one", "w v", Op("mul", x, L("w", "v")), x, cond="v == 1")
ax("mul_pow2", "w k", Op("mul", x, L("w", "pow2i(k)")), Op("shl", x, L("w", "k")), cond="0 <= k && k < w")

# ---------------------------------------------------------------------------------- textbook identities no shipped rule needs
# (they make a NEW sound rule provable: without them a correct extension of the simplifier would fail its obligation)
ax("uge_self", "w", Op("uge", x, x), L(1, 1))
ax("ugt_self", "w", Op("ugt", x, x), L(1, 0))
ax("sge_self", "w", Op("sge", x, x), L(1, 1))
ax("sgt_self", "w", Op("sgt", x, x), L(1, 0))
ax("ugt_zero_l", "w v", Op("ugt", L("w", "v"), x), L(1, 0), cond="v == 0")
ax("ugt_ones_r", "w v", Op("ugt", x, L("w", "v")), L(1, 0), cond="v == v_ones(w)")
ax("sub_self", "w", Op("sub", x, x), L("w", 0))
ax("sub_zero", "w v", Op("sub", x, L("w", "v")), x, cond="v == 0")
ax("add_neg_self", "w", Op("add", x, Op("neg", x)), L("w", 0))
ax("neg_neg", "w", Op("neg", Op("neg", x)), x)
ax("and_absorb", "w", Op("and", x, Op("or", x, y)), x)
ax("or_absorb", "w", Op("or", x, Op("and", x, y)), x)
ax("xor_cancel", "w", Op("xor", x, Op("xor", x, y)), y)
ax("ite_not_cond", "w", Op("ite", Op("not", c1), x, y), Op("ite", c1, y, x))
ax("ite_nested_then", "w", Op("ite", c1, Op("ite", c1, x, y), z), Op("ite", c1, x, z))
ax("ite_nested_else", "w", Op("ite", c1, x, Op("ite", c1, y, z)), Op("ite", c1, x, z))
ax("zext_zext", "w by iby", Ext("zext", Ext("zext", x, "iby"), "by"), Ext("zext", x, "by + iby"), cond="by >= 0 && iby >= 0")
ax("shl_of_zero", "w v", Op("shl", L("w", "v"), x), L("w", "v"), cond="v == 0")
ax("lshr_of_zero", "w v", Op("lshr", L("w", "v"), x), L("w", "v"), cond="v == 0")
ax("ashr_of_zero", "w v", Op("ashr", L("w", "v"), x), L("w", "v"), cond="v == 0")

# second batch (after benign round 2: `a == !a -> false`, `ite(c, c, b) -> c | b` failed for want of these)
ax("eq_not_self_l", "w", Op("eq", Op("not", x), x), L(1, 0), cond="w >= 1")
ax("eq_not_self_r", "w", Op("eq", x, Op("not", x)), L(1, 0), cond="w >= 1")
ax("ite_cond_then", "", Op("ite", c1, c1, q), Op("or", c1, q))
ax("ite_cond_else", "", Op("ite", c1, p, c1), Op("and", c1, p))
ax("ite_ncond_then", "", Op("ite", c1, Op("not", c1), q), Op("and", Op("not", c1), q))
ax("ite_ncond_else", "", Op("ite", c1, p, Op("not", c1)), Op("or", Op("not", c1), p))
ax("and_absorb_not", "w", Op("and", x, Op("or", Op("not", x), y)), Op("and", x, y))
ax("or_absorb_not", "w", Op("or", x, Op("and", Op("not", x), y)), Op("or", x, y))
ax("and_idem_nested", "w", Op("and", x, Op("and", x, y)), Op("and", x, y))
ax("or_idem_nested", "w", Op("or", x, Op("or", x, y)), Op("or", x, y))
ax("add_not_self", "w", Op("add", x, Op("not", x)), L("w", "v_ones(w)"))
ax("ugt_zero_r", "w v", Op("ugt", x, L("w", "v")), Op("not", Op("eq", x, L("w", "v"))), cond="v == 0")
ax("uge_zero_l", "w v", Op("uge", L("w", "v"), x), Op("eq", x, L("w", "v")), cond="v == 0")
ax("ugt_ones_l", "w v", Op("ugt", L("w", "v"), x), Op("not", Op("eq", x, L("w", "v"))), cond="v == v_ones(w)")

# ---------------------------------------------------------------------------------- literal folding (definitions of v_*)
for op in ("and", "or", "xor", "add", "sub", "mul", "shl", "lshr", "ashr"):
    ax(f"fold_{op}", "w", Op(op, L("w", a), L("w", b)), L("w", VOp(f"v_{op}", "w", a, b)), vals="a b", kind="definition")
for op in ("not", "neg"):
    ax(f"fold_{op}", "w", Op(op, L("w", a)), L("w", VOp(f"v_{op}", "w", a)), vals="a", kind="definition")
for pred in ("eq", "ugt", "uge", "sgt", "sge"):
    ax(f"fold_{pred}", "w", Op(pred, L("w", a), L("w", b)), L(1, VBool(f"v_{pred}", "w", a, b)), vals="a b", kind="definition")
ax("fold_concat", "wa wb", Op("concat", L("wa", a), L("wb", b)), L("wa + wb", VConcat("wa", a, "wb", b)), vals="a b", kind="definition")
ax("fold_slice", "w hi lo", Slice(L("w", a), "hi", "lo"), L("hi - lo + 1", VSlice("w", a, "hi", "lo")), vals="a",
   cond="lo <= hi && hi < w", kind="definition")
ax("fold_zext", "w by", Ext("zext", L("w", a), "by"), L("w + by", VExt("zext", "w", a, "by")), vals="a", cond="by >= 0", kind="definition")
ax("fold_sext", "w by", Ext("sext", L("w", a), "by"), L("w + by", VExt("sext", "w", a, "by")), vals="a", cond="by >= 0", kind="definition")


def by_name():
    d = {}
    for a_ in AXIOMS:
        assert a_.name not in d, a_.name
        d[a_.name] = a_
    return d
