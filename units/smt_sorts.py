"""Unit smt_sorts (C05, clauses "well-sorted" and "operator naming"): the Bool<->BitVec coercion discipline of the SMT-LIB term
writer.  Read off the real text on every run:  the bodies of always_consumes_bit_vec / always_produces_bit_vec (used verbatim as
spec functions), the two coercion conditions of serialize_expr, and the head symbol(s) each arm of its operator `match` writes.
The signature and meaning of every head symbol come from the SMT-LIB standard (table below), not from the code."""
import re
from vx.extract import find_match, match_arms, AnchorError
from vx.arms import enum_variants, pattern_bindings
from units.simplify_rules import NODES, DERIVE, DERIVE_COPY

NAME = "smt_sorts"
PROPERTIES = ["C05"]
SPECS = []
SER = "patronus/src/smt/serialize.rs"

# SMT-LIB 2.6 signatures: operand sorts / result sort.   B Bool, V BitVec, A Array,
#   E = element sort of a value that is Bool iff it is 1 bit wide (patronus declares 1-bit values as Bool), S = the same sort for all operands
SIG = {
    "not": ("B", "B"), "and": ("BB", "B"), "or": ("BB", "B"), "xor": ("BB", "B"), "=>": ("BB", "B"),
    "bvnot": ("V", "V"), "bvneg": ("V", "V"),
    "bvand": ("VV", "V"), "bvor": ("VV", "V"), "bvxor": ("VV", "V"), "bvshl": ("VV", "V"), "bvashr": ("VV", "V"), "bvlshr": ("VV", "V"),
    "bvadd": ("VV", "V"), "bvmul": ("VV", "V"), "bvsdiv": ("VV", "V"), "bvudiv": ("VV", "V"), "bvsmod": ("VV", "V"), "bvsrem": ("VV", "V"),
    "bvurem": ("VV", "V"), "bvsub": ("VV", "V"), "concat": ("VV", "V"),
    "bvugt": ("VV", "B"), "bvsgt": ("VV", "B"), "bvuge": ("VV", "B"), "bvsge": ("VV", "B"),
    "=": ("SS", "B"), "ite": ("BSS", "S"),
    "(_ zero_extend": ("V", "V"), "(_ sign_extend": ("V", "V"), "(_ extract": ("V", "V"),
    "select": ("AE", "Er"), "store": ("AEE", "A"), "(as const": ("E", "A"),
    "ite-of-bool": ("B", "V"),     # (ite c #b0..1 #b0..0): zero extension of a Bool
}
# which SMT-LIB function a variant must be written with (operator naming), per boolness of the result where both exist
MEANS = {
    "BVNot": {"not", "bvnot"}, "BVNegate": {"bvneg"}, "BVEqual": {"="}, "BVImplies": {"=>"}, "BVGreater": {"bvugt"}, "BVGreaterSigned": {"bvsgt"},
    "BVGreaterEqual": {"bvuge"}, "BVGreaterEqualSigned": {"bvsge"}, "BVConcat": {"concat"}, "BVAnd": {"and", "bvand"}, "BVOr": {"or", "bvor"},
    "BVXor": {"xor", "bvxor"}, "BVShiftLeft": {"bvshl"}, "BVArithmeticShiftRight": {"bvashr"}, "BVShiftRight": {"bvlshr"}, "BVAdd": {"bvadd"},
    "BVMul": {"bvmul"}, "BVSignedDiv": {"bvsdiv"}, "BVUnsignedDiv": {"bvudiv"}, "BVSignedMod": {"bvsmod"}, "BVSignedRem": {"bvsrem"},
    "BVUnsignedRem": {"bvurem"}, "BVSub": {"bvsub"}, "BVArrayRead": {"select"}, "BVIte": {"ite"}, "ArrayConstant": {"(as const"},
    "ArrayEqual": {"="}, "ArrayStore": {"store"}, "ArrayIte": {"ite"}, "BVZeroExt": {"(_ zero_extend", "ite-of-bool"}, "BVSignExt": {"(_ sign_extend"},
    "BVSlice": {"(_ extract"},
}
BOOL_ONLY = {"not", "and", "or", "xor", "=>"}
# the SMT-LIB function each head symbol is, and the operator each variant denotes (spelled as the d_* names of the algebra)
HEAD_OP = {"not": "not", "bvnot": "not", "bvneg": "neg", "and": "and", "bvand": "and", "or": "or", "bvor": "or", "xor": "xor", "bvxor": "xor",
           "=>": "implies", "bvshl": "shl", "bvashr": "ashr", "bvlshr": "lshr", "bvadd": "add", "bvmul": "mul", "bvsdiv": "sdiv", "bvudiv": "udiv",
           "bvsmod": "smod", "bvsrem": "srem", "bvurem": "urem", "bvsub": "sub", "concat": "concat", "bvugt": "ugt", "bvsgt": "sgt", "bvuge": "uge",
           "bvsge": "sge", "=": "eq", "ite": "ite", "(_ zero_extend": "zext", "(_ sign_extend": "sext", "(_ extract": "slice", "select": "select",
           "store": "store", "(as const": "const_array"}
VAR_OP = {"BVNot": "not", "BVNegate": "neg", "BVEqual": "eq", "BVImplies": "implies", "BVGreater": "ugt", "BVGreaterSigned": "sgt",
          "BVGreaterEqual": "uge", "BVGreaterEqualSigned": "sge", "BVConcat": "concat", "BVAnd": "and", "BVOr": "or", "BVXor": "xor",
          "BVShiftLeft": "shl", "BVArithmeticShiftRight": "ashr", "BVShiftRight": "lshr", "BVAdd": "add", "BVMul": "mul", "BVSignedDiv": "sdiv",
          "BVUnsignedDiv": "udiv", "BVSignedMod": "smod", "BVSignedRem": "srem", "BVUnsignedRem": "urem", "BVSub": "sub", "BVArrayRead": "select",
          "BVIte": "ite", "ArrayConstant": "const_array", "ArrayEqual": "eq", "ArrayStore": "store", "ArrayIte": "ite", "BVZeroExt": "zext",
          "BVSignExt": "sext", "BVSlice": "slice"}
# operands (is-array flag) and typing relation between the 1-bit flags of result r1 and operands o0,o1,o2 (from the node typing rule)
TYPING = {
    "BVNot": ("b", "o0 == r1"), "BVNegate": ("b", "o0 == r1"),
    "BVZeroExt": ("b", "!r1"), "BVSignExt": ("b", "!r1"),
    "BVSlice": ("b", "!o0"),       # a slice of a 1-bit value is the full-width slice, which the builders never create (and the writer skips)
    "BVEqual": ("bb", "o0 == o1 && r1"), "BVImplies": ("bb", "o0 && o1 && r1"),
    "BVGreater": ("bb", "o0 == o1 && r1"), "BVGreaterSigned": ("bb", "o0 == o1 && r1"), "BVGreaterEqual": ("bb", "o0 == o1 && r1"),
    "BVGreaterEqualSigned": ("bb", "o0 == o1 && r1"), "BVConcat": ("bb", "!r1"),
    "BVArrayRead": ("ab", "true"), "BVIte": ("bbb", "o0 && o1 == o2 && o1 == r1"),
    "ArrayConstant": ("b", "true"), "ArrayEqual": ("aa", "r1"), "ArrayStore": ("abb", "true"), "ArrayIte": ("baa", "o0"),
}
for v in ("BVAnd", "BVOr", "BVXor", "BVShiftLeft", "BVArithmeticShiftRight", "BVShiftRight", "BVAdd", "BVMul", "BVSignedDiv", "BVUnsignedDiv",
          "BVSignedMod", "BVSignedRem", "BVUnsignedRem", "BVSub"):
    TYPING[v] = ("bb", "o0 == o1 && o0 == r1")
ARRAY_RESULT = {"ArrayConstant", "ArrayStore", "ArrayIte", "ArraySymbol"}


def heads_of_arm(body: str):
    """[(condition text or None, polarity, head)] for the `write!(out, "(HEAD ..")` alternatives of one arm (token based)"""
    from vx.lexer import lex, code_toks, match_close
    def head_of(s):
        m = re.match(r"\((\(_ [a-z_]+|\(as const|[a-z=>]+)", s)
        return m.group(1) if m else None
    def first_write(text):
        w = re.findall(r'write!\(out,\s*"((?:[^"\\\\]|\\\\.)*)"', text)
        return head_of(w[0]) if w else None
    T = code_toks(lex(body))
    for i, t in enumerate(T):
        if t.kind == "ident" and t.text == "if":
            j = i + 1
            depth = 0
            while j < len(T):
                x = T[j]
                if x.kind == "punct" and x.text in "([":
                    depth += 1
                elif x.kind == "punct" and x.text in ")]":
                    depth -= 1
                elif x.text == "{" and depth == 0:
                    break
                j += 1
            cond = re.sub(r"\s+", " ", body[T[i + 1].start:T[j - 1].end])
            e1 = match_close(T, j)
            then_txt = body[T[j].start:T[e1].end]
            if e1 + 1 < len(T) and T[e1 + 1].text == "else":
                e2 = match_close(T, e1 + 2)
                else_txt = body[T[e1 + 2].start:T[e2].end]
            else:
                else_txt = ""
            return [(cond, True, first_write(then_txt)), (cond, False, first_write(else_txt))]
    h = first_write(body)
    return [(None, True, h)] if h else []


def build(ub, algebra_text):
    ub.out("use vstd::prelude::*;\nverus! {\n")
    ub.out("// @@GENERATED algebra\n" + algebra_text)
    ub.out("pub type WidthInt = u32;\n#[derive(PartialEq, Eq, Clone, Copy, Structural)] pub struct ExprRef(pub u32);\n"
           "#[derive(PartialEq, Eq, Clone, Copy, Structural)] pub struct StringRef(pub u32);\n"
           "#[derive(PartialEq, Eq, Clone, Copy, Structural)] pub struct BVLitValue(pub u64);\n")
    ub.emit_item(NODES, "enum", "Expr", DERIVE)
    src = ub.src(SER)
    # the two producer / consumer tables, verbatim bodies as spec functions
    for fn in ("always_consumes_bit_vec", "always_produces_bit_vec"):
        item = src.find_fn(fn)
        ub.out(f"// @@SPEC {fn}  <- {SER}:{item.line} (body verbatim)\npub open spec fn {fn}(e: &Expr) -> bool {item.body}\n")
        ub.emitted.append(type(ub.emitted[0])(fn, "item", SER, item.line, 0, 0))
    ser = src.find_fn("serialize_expr")
    # the Bool/BitVec discipline of the writer is the block of `let` statements at the head of the loop body (from the one after
    # `result_is_1_bit` to the debug_assert) plus `let child_must_be_bit_vec = ..;` — taken verbatim, whatever they are
    mb = re.search(r"let result_is_1_bit = [^;]+;\s*(.*?)\n\s*debug_assert!", ser.body, re.S)
    m3 = re.search(r"let child_must_be_bit_vec = [^;]+;", ser.body)
    if not (mb and m3):
        raise AnchorError("serialize_expr: coercion conditions not found")
    lets = re.sub(r"//[^\n]*", "", mb.group(1)).strip()
    names = re.findall(r"let ([a-z_0-9]+)\s*=", lets)
    if not all(re.match(r"\s*let [a-z_0-9]+\s*=\s*[^;]+;\s*$", st + ";", re.S) for st in lets.split(";") if st.strip()):
        raise AnchorError("serialize_expr: unexpected statement among the coercion conditions")
    for need in ("result_is_bit_vec", "convert_result_to_bv", "convert_result_to_bool"):
        if need not in names:
            raise AnchorError(f"serialize_expr: `let {need} = ..` not found")
    hdr = "(expr: &Expr, result_is_1_bit: bool, must_be_bit_vec: bool) -> bool"
    ub.out("#[derive(PartialEq, Eq, Structural)] pub enum Sort { B, V, A }\n"
           f"// coercion conditions of serialize_expr, verbatim  <- {SER}:{ser.line}\n"
           f"pub open spec fn produces{hdr} {{ {lets} result_is_bit_vec }}\n"
           f"pub open spec fn to_bv{hdr} {{ {lets} convert_result_to_bv }}\n"
           f"pub open spec fn to_bool{hdr} {{ {lets} convert_result_to_bool }}\n"
           f"pub open spec fn consumes{hdr} {{ {lets} {m3.group(0)} child_must_be_bit_vec }}\n"
           "/// the sort a consumer receives for a value (1-bit values are Bool unless the consumer demands a bit-vector)\n"
           "pub open spec fn wanted(is1: bool, must_be_bit_vec: bool, is_arr: bool) -> Sort { if is_arr { Sort::A } else if is1 && !must_be_bit_vec { Sort::B } else { Sort::V } }\n"
           "/// sort of the written term: its head's result sort `nat`, wrapped by `(ite t #b1 #b0)` (Bool->BitVec) or `(= t #b1)` (BitVec->Bool)\n"
           "pub open spec fn written(hs: Sort, e: &Expr, r1: bool, mbv: bool) -> Sort {\n"
           "    if to_bv(e, r1, mbv) { if hs == Sort::B { Sort::V } else { Sort::A /* ill-sorted ite */ } }\n"
           "    else if to_bool(e, r1, mbv) { if hs == Sort::V { Sort::B } else { Sort::A /* ill-sorted = */ } }\n"
           "    else { hs }\n}\n"
           "pub open spec fn elem(is1: bool) -> Sort { if is1 { Sort::B } else { Sort::V } }\n")
    enum_text, _ = ub.src(NODES).find_item("enum", "Expr")
    variants = enum_variants(enum_text)
    # extension of a Bool is spelled `(ite c #b0..0X #b0..0Y)`: which variants, which constants (read off the continuation block)
    mc = re.search(r'if let ((?:Expr::[A-Za-z]+ \{[^}]*\}\s*\|?\s*)+)= expr\s*&&\s*e\.get_type\(ctx\)\.is_bool\(\)\s*\{\s*let zeros = "0"\.repeat\(\*by as usize\);\s*'
                   r'write!\(out, " #b\{\}([01]+) #b\{\}([01]+)", zeros, zeros\)\?;', ser.body)
    if not mc:
        raise AnchorError("serialize_expr: continuation for extensions of Bool not found")
    bool_ext_variants = re.findall(r"Expr::([A-Za-z]+)", mc.group(1))
    cx, cy = mc.group(2), mc.group(3)
    for v in bool_ext_variants:
        op = VAR_OP.get(v)
        if op not in ("zext", "sext"):
            raise AnchorError(f"continuation for extensions of Bool applies to {v}")
        ub.out(f"// the writer spells {v} of a Bool as (ite c #b0..0{cx} #b0..0{cy}) with `by` zeros  <- continuation block of serialize_expr\n"
               f"pub proof fn theorem_bool_ext_{v}(c: Den, by: int)\n    requires d_w(c) == 1, by >= 1,\n"
               f"    ensures d_ite(c, d_lit(by + {len(cx)}, {int(cx, 2)}), d_lit(by + {len(cy)}, {int(cy, 2)})) == d_{op}(c, by),\n"
               f"{{\n    broadcast use group_bv_algebra;\n}}\n")
    arms = match_arms(ser.body, find_match(ser.body, 0, "expr"))
    seen = set()
    ub.arm_notes = []
    for a in arms:
        v, binds = pattern_bindings(a.pat, variants)
        if v is None:
            raise AnchorError(f"serialize_expr arm with pattern `{a.pat}`")
        seen.add(v)
        line = ser.line + ser.body[:a.start].count("\n")
        if v in ("BVSymbol", "ArraySymbol", "BVLiteral"):
            continue    # leaves: handled by lemma_leaves below
        alts = heads_of_arm(a.body)
        if not alts:
            raise AnchorError(f"no head symbol found in the arm of {v}")
        kinds, rel = TYPING[v]
        n = len(kinds)
        params = ", ".join(["e: Expr", "r1: bool", "mbv: bool"] + [f"o{i}: bool" for i in range(n)])
        req = [f"e is {v}", rel]
        if v == "BVZeroExt":
            pass
        ens = []
        for cond, pol, head in alts:
            # resolve the condition `X.get_type(ctx).is_bool()` / `width == 1`: X bound by the pattern -> that operand, else the node itself
            cexpr = "true"
            if cond is not None:
                if cond.startswith("!") and not cond.startswith("!="):
                    cond, pol = cond[1:].strip(), not pol     # `if !C { X } else { Y }` is `if C { Y } else { X }`
                mm = re.match(r"([a-z_]+)\.get_type\(ctx\)\.is_bool\(\)$", cond)
                cond = cond.replace("*", "")
                if mm:
                    who = mm.group(1)
                    fld = [i for i, (b, t) in enumerate([x for x in binds if x[1].strip() == "ExprRef"]) if b == who]
                    flag = f"o{fld[0]}" if fld else "r1"
                elif cond == "width == 1" and v in ("BVZeroExt", "BVSignExt") and re.search(r"let width = e\.get_bv_type\(ctx\)", a.body):
                    flag = "o0"
                elif v == "BVSlice" and "lo == 0" in cond:
                    # the no-op branch writes nothing: excluded by typing (full-width slices are never created); the else branch is the extract
                    if pol:
                        continue
                    flag = None
                else:
                    raise AnchorError(f"{v}: unrecognised head condition `{cond}`")
                if flag is not None:
                    cexpr = flag if pol else f"!{flag}"
            if head is None:
                raise AnchorError(f"{v}: could not read the head symbol")
            hkey = head
            if head == "ite" and VAR_OP[v] in ("zext", "sext"):
                if v not in bool_ext_variants:
                    raise AnchorError(f"{v} is written with `ite` but the continuation block does not handle it")
                hkey = "ite-of-bool"     # meaning: theorem_bool_ext_{v}
            elif head not in HEAD_OP:
                raise AnchorError(f"{v}: head symbol `{head}` is not in the SMT-LIB table")
            elif HEAD_OP[head] != VAR_OP[v]:
                ens.append(f"({cexpr}) ==> false /* {v} denotes d_{VAR_OP[v]} but is written with `{head}`, which is SMT-LIB's d_{HEAD_OP[head]} */")
                continue
            if hkey not in SIG:
                raise AnchorError(f"{v}: head symbol `{head}` has no SMT-LIB signature in the table")
            args, res = SIG[hkey]
            if len(args) != n:
                raise AnchorError(f"{v}: head `{head}` takes {len(args)} operands, node has {n}")
            conj = []
            for i, (ak, kk) in enumerate(zip(args, kinds)):
                got = f"wanted(o{i}, consumes(&e, r1, mbv), {'true' if kk == 'a' else 'false'})"
                if ak in "BVA":
                    conj.append(f"{got} == Sort::{ak}")
                elif ak == "E":
                    conj.append(f"{got} == elem(o{i})")
                elif ak == "S":
                    first = [j for j, x in enumerate(args) if x == "S"][0]
                    if i != first:
                        conj.append(f"{got} == wanted(o{first}, consumes(&e, r1, mbv), {'true' if kinds[first] == 'a' else 'false'})")
            if hkey in BOOL_ONLY:
                conj.append("r1")
            nat = {"B": "Sort::B", "V": "Sort::V", "A": "Sort::A", "Er": "elem(r1)"}.get(res)
            if res == "S":
                first = [j for j, x in enumerate(args) if x == "S"][0]
                nat = f"wanted(o{first}, consumes(&e, r1, mbv), {'true' if kinds[first] == 'a' else 'false'})"
            arr = "true" if v in ARRAY_RESULT else "false"
            conj.append(f"written({nat}, &e, r1, mbv) == wanted(r1, mbv, {arr})")
            ens.append(f"({cexpr}) ==> ({' && '.join(conj)})")
        ub.out(f"// @@FN verify sorted_{v}  <- {SER}:{line}  heads: {[(c, p, h) for c, p, h in alts]}\n"
               f"pub proof fn sorted_{v}({params})\n    requires {', '.join(req)},\n    ensures\n        " + ",\n        ".join(ens) + ",\n{\n}\n")
        ub.emitted.append(type(ub.emitted[0])(f"sorted_{v}", "verify", SER, line, len(ub.lines) - 8, len(ub.lines), contract="\n".join(ens)))
    missing = set(variants) - seen
    if missing:
        raise AnchorError(f"serialize_expr does not mention variants {sorted(missing)}")
    # leaves: symbols are declared Bool iff 1 bit wide, literals are written true/false iff 1 bit wide, #b.. otherwise
    ub.out("pub proof fn lemma_leaves(e: Expr, r1: bool, mbv: bool)\n    requires e is BVSymbol || e is BVLiteral,\n"
           "    ensures written(elem(r1), &e, r1, mbv) == wanted(r1, mbv, false),\n{\n}\n")
    # ---- the rest of the writer the property rests on is NOT under contract here (format!/write!-based emission): pinned, so that
    # a change is reported as undecided instead of passing silently (identifier quoting has its own bounded kernel, KL smt_ident)
    for fn_name in ("escape_smt_identifier", "serialize_cmd", "serialize_type", "find_next_child"):
        ub.pin_assumed_fn(SER, fn_name, None, "not under contract (write!-based emission); pinned by hash")
    ub.pin_rest_of_file(SER)   # frame: the other functions of the file (DESIGN 11.12)
    ub.out("} // verus!\nfn main() {}\n")
