"""Unit smt_patterns (C14, clause "the reader's operator table inverts the writer's"):
  (a) every expression arm of parse_pattern (smt/parser.rs) builds the SMT-LIB meaning of its head symbol (closure bodies / builder
      calls verbatim, contracts from the standard);
  (b) an arm may be folded left-associatively only if the standard declares its head :left-assoc (or it is associative);
  (c) for every Expr variant, the reader arm for each head symbol the WRITER uses for it (read off smt/serialize.rs, unit smt_sorts)
      rebuilds an expression with the same denotation and type, including the writer's Bool<->BitVec coercion wrappers."""
import re
from vx.extract import find_match, match_arms, AnchorError
from vx.arms import enum_variants
from vx.spec import FnSpec
from units.simplify_rules import common_prelude, NODES, CTX, BUILDERS
from units import smt_sorts as SS
from units.btor2_lower import MORE_BUILDERS

NAME = "smt_patterns"
PROPERTIES = ["C14"]
SPECS = ["contracts/context.spec", "contracts/nodes.spec", "contracts/smt.spec"]
PARSER = "patronus/src/smt/parser.rs"

# SMT-LIB 2.6: heads that may be applied to more than two arguments by left-associative folding
LEFT_ASSOC_OK = {"and", "or", "xor", "bvand", "bvor", "bvxor", "bvadd", "bvmul"}
HKEY = {"=": "eq", "=>": "implies"}
UNARY_ITEMS = {"ZExt": [("by", "WidthInt")], "SExt": [("by", "WidthInt")], "Extract": [("hi", "WidthInt"), ("lo", "WidthInt")]}


def build(ub, algebra_text):
    common_prelude(ub, algebra_text)
    for b in dict.fromkeys(BUILDERS + MORE_BUILDERS + ["array_const", "one"]):
        ub.emit_fn(CTX, b, "stub")
    ub.emit_fn("patronus/src/expr/types.rs", "get_bv_type", "stub", spec_key="ExprRef::get_bv_type")
    src = ub.src(PARSER)
    # the n-ary plumbing uses iterator adapters (outside the dialect): ASSUMED to apply the arm's closure to the two operands
    # (Binary), resp. to fold left (LeftAssoc); pinned by hash
    ub.pin_assumed_fn(PARSER, "bin_op", None, "assumed: Binary applies op(a, b) to exactly two operands; LeftAssoc folds left")
    item = src.find_fn("parse_pattern")
    arms = match_arms(item.body, find_match(item.body, 0, "pattern"))
    ub.arm_notes = []
    readers = {}     # head -> (micro-fn name, kind, arity)
    cfg = {"receivers": {}}
    for a in arms:
        line = item.line + item.body[:a.start].count("\n")
        pat = re.sub(r"\s+", " ", a.pat.strip())
        body = a.body.strip()
        # ---- n-ary heads through bin_op
        m = re.match(r'^\[ ?Sym\(b"([^"]+)"\), args @ \.\. ?\]$', pat)
        if m:
            head = m.group(1)
            b = body[1:-1].strip() if body.startswith("{") else body
            mm = re.match(r'^bin_op\(\s*st,\s*"[^"]*",\s*args,\s*\|a, b\|\s*(.*),\s*([A-Za-z]+),?\s*\)\?$', b, re.S)
            if not mm:
                raise AnchorError(f"parse_pattern arm for `{head}`: unexpected body")
            expr, kind = mm.group(1).strip(), mm.group(2)
            key = "smt_bin_" + HKEY.get(head, head)
            ub.emit_synth(key, key, f"fn {key}(ctx: &mut Context, a: ExprRef, b: ExprRef) -> ExprRef", "{ " + expr + " }", PARSER, line, cfg,
                          note=f"closure of the `{head}` arm, verbatim; n-ary kind declared: {kind}")
            readers[head] = (key, kind, 2)
            ok = "true" if (kind != "LeftAssoc" or head in LEFT_ASSOC_OK) else "false"
            ub.out(f"// n-ary folding of `{head}`: declared {kind}; SMT-LIB left-assoc: {head in LEFT_ASSOC_OK}\n"
                   f"pub proof fn theorem_nary_{HKEY.get(head, head)}()\n    ensures {ok},\n{{\n}}\n")
            continue
        # ---- unary heads
        m = re.match(r'^\[ ?(?:Sym\(b"([^"]+)"\)|(ZExt|SExt|Extract)\(([a-z, ]+)\)), e ?\]$', pat)
        if m:
            b = body
            mm = re.match(r"^PExpr\((.*)\)$", b, re.S)
            if not mm:
                raise AnchorError(f"unary arm `{pat}`: unexpected body")
            expr = mm.group(1).replace("expr(st, e)?", "x")
            if m.group(1):
                head, params = m.group(1), ""
            else:
                head = m.group(2)
                names = [n.strip() for n in m.group(3).split(",")]
                if names != [n for n, _ in UNARY_ITEMS[head]]:
                    raise AnchorError(f"unary arm `{pat}`: unexpected bindings")
                params = "".join(f"{n}: &{t}, " for n, t in UNARY_ITEMS[head])
            key = f"smt_un_{head}"
            ub.emit_synth(key, key, f"fn {key}(ctx: &mut Context, {params}x: ExprRef) -> ExprRef", "{ " + expr + " }", PARSER, line, cfg,
                          note=f"`{pat}` arm, verbatim with `expr(st, e)?` spelled x")
            readers[head] = (key, "Unary", 1)
            continue
        # ---- fixed-arity heads with already parsed operands
        m = re.match(r'^\[ ?(?:Sym\(b"(select|ite|store)"\)|AsConst\(tpe\))((?:, PExpr\([a-z]+\))+) ?\]$', pat)
        if m:
            names = re.findall(r"PExpr\(([a-z]+)\)", m.group(2))
            head = m.group(1) or "(as const"
            key = "smt_" + (m.group(1) or "as_const")
            b = body[1:-1].strip() if body.startswith("{") else body
            mm = re.search(r"PExpr\((.*)\)\s*$", b, re.S)
            pre = b[:mm.start()]
            params = ("tpe: &ArrayType, " if m.group(1) is None else "") + ", ".join(f"{n}: &ExprRef" for n in names)
            ub.emit_synth(key, key, f"fn {key}(ctx: &mut Context, {params}) -> ExprRef", "{ " + pre + mm.group(1) + " }", PARSER, line, cfg,
                          note=f"`{pat}` arm, verbatim")
            readers[head] = (key, "Fixed", len(names))
            continue
        ub.arm_notes.append(f"{PARSER}:{line} pattern `{pat[:60]}`: not an operator arm (types, parameterised heads, let, pass-through, error) - not under contract")
    # ---- (c) writer heads -> reader arms
    ser = ub.src(SS.SER).find_fn("serialize_expr")
    enum_text, _ = ub.src(NODES).find_item("enum", "Expr")
    variants = enum_variants(enum_text)
    from vx.arms import pattern_bindings
    for a in match_arms(ser.body, find_match(ser.body, 0, "expr")):
        v, binds = pattern_bindings(a.pat, variants)
        if v in ("BVSymbol", "ArraySymbol", "BVLiteral"):
            continue
        line = ser.line + ser.body[:a.start].count("\n")
        info = variants[v]
        if info["kind"] == "tuple":
            names = [f"f{k}" for k, _ in info["fields"]]
            pat = f"Expr::{v}({', '.join(names)})"
        else:
            names = [k for k, _ in info["fields"]]
            pat = f"Expr::{v} {{ {', '.join(names)} }}"
        refs = [n for n, (_, t) in zip(names, info["fields"]) if t.strip() == "ExprRef"]
        heads = {h for _, _, h in SS.heads_of_arm(a.body) if h}
        for head in sorted(heads):
            hk = head
            if v == "BVZeroExt" and head == "ite":
                # (ite c #b0..01 #b0..00): read back as ite over two literals; proved equal to zero_extend by ax_zext_bool_as_ite
                call = ("{ let w1 = by + 1; let l1 = ctx.bit_vec_val(1, w1); let l0 = ctx.zero(w1); smt_ite(ctx, &e, &l1, &l0) }")
                extra = "old(ctx).w(old(ctx).nodes()[r]->BVZeroExt_e) == 1, old(ctx).nodes()[r]->BVZeroExt_by >= 1,"
            else:
                if head not in readers and head not in ("(_ zero_extend", "(_ sign_extend", "(_ extract"):
                    raise AnchorError(f"the writer uses head `{head}` for {v} but parse_pattern has no arm for it")
                extra = ""
                if head == "(_ zero_extend":
                    call = "smt_un_ZExt(ctx, &by, e)"
                elif head == "(_ sign_extend":
                    call = "smt_un_SExt(ctx, &by, e)"
                elif head == "(_ extract":
                    call = "smt_un_Extract(ctx, &hi, &lo, e)"
                elif head == "(as const":
                    call = "{ let t__ = ArrayType { index_width, data_width }; smt_as_const(ctx, &t__, &e) }"
                else:
                    fn, kind, ar = readers[head]
                    if ar != len(refs):
                        raise AnchorError(f"{v}: head `{head}` is read with {ar} operands, the node has {len(refs)}")
                    if kind == "Fixed":
                        call = f"{fn}(ctx, {', '.join('&' + n for n in refs)})"
                    else:
                        call = f"{fn}(ctx, {', '.join(refs)})"
                if head in SS.BOOL_ONLY:
                    extra = "old(ctx).ty(r) == Type::BV(1),"
            key = f"readback_{v}_{re.sub(r'[^a-z]+', '_', head).strip('_') or 'eq'}"
            if head == "=":
                key = f"readback_{v}_eq"
            if head == "=>":
                key = f"readback_{v}_implies"
            ub.specs[key] = FnSpec(key, requires=f"old(ctx).wf(), old(ctx).has(r), old(ctx).nodes()[r] is {v},\n{extra}\n",
                                   ensures="final(ctx).extends(old(ctx)), final(ctx).wf(), final(ctx).has(res),\nfinal(ctx).den(res) == old(ctx).den(r), final(ctx).ty(res) == old(ctx).ty(r),\n",
                                   prefix="broadcast use group_bv_algebra, group_arith;\n")
            body = f"{{ let n__ = (*ctx.node(r)).clone();\n    match n__ {{\n        {pat} => {call},\n        _ => unreached(),\n    }}\n}}"
            ub.emit_synth(key, key, f"fn {key}(ctx: &mut Context, r: ExprRef) -> ExprRef", body, SS.SER, line, {"receivers": {}},
                          note=f"writer head `{head}` for {v} (read off serialize_expr) composed with the reader arm for that head")
    # the writer's coercion wrappers are read back as the identity
    ub.specs["readback_bool_to_bv"] = FnSpec("readback_bool_to_bv", requires="old(ctx).wf(), old(ctx).bv(x, 1),\n",
        ensures="final(ctx).extends(old(ctx)), final(ctx).wf(), final(ctx).has(res), final(ctx).den(res) == old(ctx).den(x), final(ctx).ty(res) == Type::BV(1),\n",
        prefix="broadcast use group_bv_algebra, group_arith;\n")
    ub.emit_synth("readback_bool_to_bv", "readback_bool_to_bv", "fn readback_bool_to_bv(ctx: &mut Context, x: ExprRef) -> ExprRef",
                  "{ let l1 = ctx.one(1); let l0 = ctx.zero(1); smt_ite(ctx, &x, &l1, &l0) }", SS.SER, ser.line, {"receivers": {}},
                  note="`(ite t #b1 #b0)` read by the ite arm")
    ub.specs["readback_bv_to_bool"] = FnSpec("readback_bv_to_bool", requires="old(ctx).wf(), old(ctx).bv(x, 1),\n",
        ensures="final(ctx).extends(old(ctx)), final(ctx).wf(), final(ctx).has(res), final(ctx).den(res) == old(ctx).den(x), final(ctx).ty(res) == Type::BV(1),\n",
        prefix="broadcast use group_bv_algebra, group_arith;\n")
    ub.emit_synth("readback_bv_to_bool", "readback_bv_to_bool", "fn readback_bv_to_bool(ctx: &mut Context, x: ExprRef) -> ExprRef",
                  "{ let l1 = ctx.one(1); smt_bin_eq(ctx, x, l1) }", SS.SER, ser.line, {"receivers": {}}, note="`(= t #b1)` read by the = arm")
    ub.pin_rest_of_file(PARSER)   # frame: the other functions of the file (DESIGN 11.12)
    ub.out("} // verus!\nfn main() {}\n")
