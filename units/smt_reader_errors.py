"""Unit smt_reader_errors (C14, clause "malformed text yields an error rather than a wrong value"): the two places of
parse_expr_or_type where the reader gives up.

Both are verbatim fragments of the function, wrapped as functions of their free variables (engine VA):
  * the statements AFTER the token loop (reached exactly when the input ends before one complete expression or type has been read:
    the loop returns as soon as the stack is a single expression/type) — contract: the result is an `Err`;
  * the arm for a string-literal token (SMT-LIB strings are not bit-vector or array terms) — contract: the arm leaves the function
    with an `Err`; falling through to the rest of the loop body is modelled by the marker `Ok(fall_through())`.
`todo!`/`panic!` become `unreached()` (rule R6): a fragment that can panic fails its obligation.
`format!(..)` becomes `fmt_opaque()` (rule R18: the text of an error message is left unspecified)."""
import os, re
NAME = "smt_reader_errors"
PROPERTIES = ["C14"]
SPECS = ["contracts/smt_reader.spec"]
PARSER = "patronus/src/smt/parser.rs"

TYPES = [["std::str::Utf8Error", "XUtf8Error"], ["std::io::Error", "XIoError"]]

PRELUDE = """
#[verifier::external_body] pub struct XUtf8Error { _p: u8 }
#[verifier::external_body] pub struct XIoError { _p: u8 }
#[verifier::external_body] #[derive(Clone, Copy)] pub struct ExprRef { _p: u8 }
#[verifier::external_body] #[derive(Clone, Copy)] pub struct Type { _p: u8 }
#[verifier::external_body] #[derive(Clone, Copy)] pub struct ArrayType { _p: u8 }
pub type WidthInt = u32;
pub type Result<T> = std::result::Result<T, SmtParserError>;
/// R18: the value of `format!(..)` (assumption: formatting has no effect other than producing the text and does not panic)
#[verifier::external_body] pub fn fmt_opaque() -> String { unimplemented!() }
/// marker for "the arm does not leave the function"
#[verifier::external_body] pub fn fall_through() -> ExprOrType { unimplemented!() }
#[verifier::external_body] pub fn string_lit_to_string(value: &[u8]) -> String { unimplemented!() }
"""


def r18_format(text):
    """format!( ... )  ->  fmt_opaque()"""
    from vx.lexer import lex, code_toks, match_close
    n = 0
    while True:
        T = code_toks(lex(text))
        hit = None
        for i, t in enumerate(T):
            if t.kind == "ident" and t.text == "format" and i + 2 < len(T) and T[i + 1].text == "!" and T[i + 2].text == "(":
                hit = (t.start, T[match_close(T, i + 2)].end)
                break
        if hit is None:
            return text, n
        text = text[:hit[0]] + "fmt_opaque()" + text[hit[1]:]
        n += 1


def fragments(ub):
    from vx.lexer import lex, code_toks, match_close
    from vx.extract import AnchorError
    item = ub.src(PARSER).find_fn("parse_expr_or_type")
    body = item.body
    T = code_toks(lex(body))
    # the token loop: the only `for` at nesting depth 1 of the function body
    depth = 0
    loops = []
    for i, t in enumerate(T):
        if t.text == "{":
            depth += 1
        elif t.text == "}":
            depth -= 1
        elif t.kind == "ident" and t.text == "for" and depth == 1:
            loops.append(i)
    if len(loops) != 1:
        raise AnchorError(f"parse_expr_or_type: expected one top-level token loop, found {len(loops)}")
    j = loops[0]
    while T[j].text != "{":
        j += 1
    e = match_close(T, j)
    tail = body[T[e].end:T[-1].start]          # up to the closing brace of the function
    if not tail.strip():
        raise AnchorError("parse_expr_or_type: nothing after the token loop")
    tail_line = item.line + body[:T[e].end].count("\n")
    # the string-literal arm
    m = re.search(r"Token::StringLit\((\w+)\)\s*=>\s*\{", body)
    if not m:
        raise AnchorError("parse_expr_or_type: arm `Token::StringLit(..) => {` not found")
    k = next(i for i, t in enumerate(T) if t.start == m.end() - 1)
    ke = match_close(T, k)
    arm = body[T[k].end:T[ke].start]
    arm_line = item.line + body[:m.start()].count("\n")
    return tail, tail_line, arm, arm_line, m.group(1)


def build(ub, algebra_text, variant=None):
    ub.out("use vstd::prelude::*;\nverus! {\n")
    ub.out("// @@FILE units/smt_reader_errors.py (prelude)\n" + PRELUDE)
    ub.emit_item(PARSER, "enum", "SmtParserError", "", replace=TYPES)
    ub.emit_item(PARSER, "enum", "ParserItem")        # the items on the parser's stack (a changed tail may inspect them)
    ub.emit_item(PARSER, "enum", "ExprOrType")
    ub.out("use ParserItem::*;\n")
    tail, tail_line, arm, arm_line, var = fragments(ub)
    cfg = {"receivers": {}, "no_canary": True, "transform": ("R18", r18_format)}
    ub.emit_synth("parse_expr_or_type#end_of_input", "parse_expr_or_type#end_of_input",
                  "fn parse_expr_or_type__end_of_input(orphan_closing_count: u64, stack: Vec<ParserItem<'_>>) -> Result<ExprOrType>",
                  "{" + tail + "}", PARSER, tail_line, cfg=cfg,
                  note="the statements after the token loop, verbatim, as a function of their free variables")
    ub.emit_synth("parse_expr_or_type#string_literal", "parse_expr_or_type#string_literal",
                  f"fn parse_expr_or_type__string_literal({var}: &[u8]) -> Result<ExprOrType>",
                  "{\n    let _arm: () = {" + arm + "};\n    Ok(fall_through())\n}", PARSER, arm_line, cfg=cfg,
                  note="the body of the arm for string-literal tokens, verbatim; falling through to the rest of the loop is `Ok(fall_through())`")
    ub.out("} // verus!\nfn main() {}\n")
