"""Unit meta (C13): get_fixed_point of expr/meta.rs, verbatim, against the ExprMap interface; fixed-point lemmas proved."""
NAME = "meta"
PROPERTIES = ["C13"]
SPECS = ["contracts/meta.spec"]
META = "patronus/src/expr/meta.rs"
CTXF = "patronus/src/expr/context.rs"

SETVIEW = """
impl DenseExprSet {
    /// the reference is a member: its bit is set in the word that covers its position
    pub open spec fn has(&self, e: ExprRef) -> bool {
        0 <= pos(e) && pos(e) / 64 < self.inner@.len() && bit_of(self.inner@[pos(e) / 64], (pos(e) % 64) as u32)
    }
}
"""

VIEWS = """
// abstract views: both containers denote a total map ExprRef -> T with default
impl<T: DefaultV + Clone> DenseExprMetaData<T> {
    pub open spec fn wf(&self) -> bool { self.default == T::dflt() }
    pub open spec fn at(&self, e: ExprRef) -> T {
        if 0 <= pos(e) < self.inner@.len() { self.inner@[pos(e)] } else { self.default }
    }
}
impl<T: DefaultV + Clone> SparseExprMap<T> {
    pub open spec fn wf(&self) -> bool { self.default == T::dflt() }
    pub open spec fn at(&self, e: ExprRef) -> T {
        if self.inner@.contains_key(e) { self.inner@[e] } else { self.default }
    }
}
"""


def build(ub, algebra_text):
    ub.out("use vstd::prelude::*;\nverus! {\n")
    import os
    base = os.path.dirname(os.path.dirname(os.path.abspath(__file__)))
    pre, post = open(os.path.join(base, "prelude/maps.rs")).read().split("//@@EXTRACTED-ITEMS@@")
    ub.out("// @@FILE prelude/maps.rs (part 1)\n" + pre)
    ub.emit_item(CTXF, "struct", "ExprRef", "#[derive(PartialEq, Eq, Clone, Copy, Structural)]", replace=[["(NonZeroU32)", "(pub NonZeroU32)"]])
    ub.out("// @@FILE prelude/maps.rs (part 2)\n" + post.replace("//@@MAPS-CONTAINERS@@", ""))
    ub.emit_raw("lemmas/fixpoint.rs")
    ub.emit_fn(META, "get_fixed_point", "verify", cfg={"receivers": {"m": "map"}, "no_canary": True})
    # ---- the two containers: struct definitions verbatim (bounds `Default + Clone + Debug` spelled `DefaultV + Clone`), abstract views here
    B = [["<T: Default + Clone + Debug>", "<T: DefaultV + Clone>"], ["inner:", "pub inner:"], ["default:", "pub default:"]]
    ub.emit_item(META, "struct", "DenseExprMetaData", "", replace=B)
    ub.emit_item(META, "struct", "SparseExprMap", "#[verifier::reject_recursive_types(T)]", replace=B)
    ub.out(VIEWS)
    ub.emit_fn(CTXF, "from", "verify", impl="impl From<ExprRef> for usize", spec_key="From<ExprRef>::from", cfg={"receivers": {}, "no_canary": True})
    conv = {"receivers": {}, "no_canary": True, "replace": [["e.into()", "expr_ref_to_usize(e)"], [".entry(e).or_default()", ".entry_or_default(e)"]]}
    ub.emit_fn(META, "index", "verify", impl="impl<T: Default + Clone + Debug> Index<ExprRef> for DenseExprMetaData<T>", spec_key="DenseExprMetaData::index", cfg=conv)
    ub.emit_fn(META, "index_mut", "verify", impl="impl<T: Default + Clone + Debug> IndexMut<ExprRef> for DenseExprMetaData<T>", spec_key="DenseExprMetaData::index_mut", cfg=conv)
    ub.emit_fn(META, "index", "verify", impl="impl<T: Default + Clone + Debug> Index<ExprRef> for SparseExprMap<T>", spec_key="SparseExprMap::index", cfg=conv)
    ub.emit_fn(META, "index_mut", "verify", impl="impl<T: Default + Clone + Debug> IndexMut<ExprRef> for SparseExprMap<T>", spec_key="SparseExprMap::index_mut", cfg=conv)
    # ---- DenseExprSet
    ub.emit_raw("lemmas/bits.rs")
    ub.out("pub type Word = u64;\n")
    ub.emit_item(META, "struct", "DenseExprSet", "", replace=[["inner:", "pub inner:"]])
    ub.out(SETVIEW)
    bits = {"receivers": {}, "no_canary": True, "replace": [["index.into()", "expr_ref_to_usize(index)"], ["Word::BITS", "u64::BITS"]]}
    ub.emit_fn(META, "index_to_word_and_bit", "verify", cfg=bits)
    for f in ("contains", "insert", "remove"):
        ub.emit_fn(META, f, "verify", impl="impl ExprSet for DenseExprSet", spec_key=f"DenseExprSet::{f}", cfg=dict(bits, compound_index_assign=True))
    ub.pin_rest_of_file(META)   # frame: the other functions of the file (DESIGN 11.12)
    ub.out("} // verus!\nfn main() {}\n")
