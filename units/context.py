"""Unit context (C12): the real bodies of the Context builders (context.rs) against the contracts that every other unit assumes,
with `Context` as the real struct and the ghost view defined from its fields (Layer 1)."""
import os, re
from units.simplify_rules import NODES, CTX, TYPES, DERIVE, DERIVE_COPY

NAME = "context"
PROPERTIES = ["C12"]
SPECS = ["contracts/context.spec", "contracts/nodes.spec", "contracts/context_l1.spec"]
BASE = os.path.dirname(os.path.dirname(os.path.abspath(__file__)))


L1_BUILDERS = ["and", "or", "xor", "shift_left", "arithmetic_shift_right", "shift_right", "add", "sub", "mul", "div", "signed_div",
               "signed_mod", "signed_remainder", "remainder", "greater", "greater_or_equal", "greater_signed", "greater_or_equal_signed",
               "implies", "equal", "distinct", "ite", "not", "negate", "concat", "slice", "zero_extend", "sign_extend",
               "bv_lit", "zero", "one", "ones", "get_true", "get_false", "array_store", "array_const", "array_read"]


def rd(rel):
    return open(os.path.join(BASE, rel), encoding="utf-8").read()


def concrete_prelude(ub, algebra_text):
    ub.out("use vstd::prelude::*;\nverus! {\n")
    ub.out("// @@GENERATED algebra\n" + algebra_text)
    ub.emit_raw("lemmas/arith.rs")
    ub.emit_raw("prelude/baa.rs")
    ctx = rd("prelude/ctx.rs")
    pre, rest = ctx.split("//@@EXTRACTED-ITEMS@@")
    ub.out("// @@FILE prelude/ctx.rs (part 1)\n" + pre)
    ub.emit_item(NODES, "struct", "ArrayType", DERIVE_COPY)
    ub.emit_item(NODES, "enum", "Type", DERIVE_COPY)
    ub.emit_item(NODES, "enum", "Expr", DERIVE)
    # replace the abstract primitives by the concrete ones
    a, b = rest.index("//@@PRIM-BEGIN@@"), rest.index("//@@PRIM-END@@")
    ub.out("// @@FILE prelude/ctx.rs (part 2, up to the primitives)\n" + rest[:a])
    conc = rd("prelude/ctx_concrete.rs")
    c1, c2 = conc.split("//@@CONTEXT-STRUCT@@")
    ub.out("// @@FILE prelude/ctx_concrete.rs\n" + c1)
    ub.emit_item(CTX, "struct", "Context", "",
                 replace=[["indexmap::IndexSet<String, FxBuildHasher>", "IndexSet<String>"], ["indexmap::IndexSet<Expr, FxBuildHasher>", "IndexSet<Expr>"],
                          ["baa::ValueInterner", "ValueInterner"]] + [["\n    " + f + ":", "\n    pub " + f + ":"] for f in ("strings", "exprs", "values", "true_expr_ref", "false_expr_ref")])
    c2a, c2b = c2.split("//@@GENERATED-TY-DEN@@")
    ub.out(c2a)
    ub.out("// @@FILE prelude/ctx_concrete_gen.rs\n" + rd("prelude/ctx_concrete_gen.rs"))
    ub.out(c2b)
    rest2 = rest[b + len("//@@PRIM-END@@"):]
    # node_raw and BVLitValue::get are real functions here
    a, b = rest2.index("//@@NODERAW-BEGIN@@"), rest2.index("//@@NODERAW-END@@")
    mid = rest2[:a] + "    //@@NODERAW (real `impl Index<ExprRef> for Context` is emitted below as node_raw)\n" + rest2[b + len("//@@NODERAW-END@@"):]
    a, b = mid.index("//@@LITGET-BEGIN@@"), mid.index("//@@LITGET-END@@")
    mid = mid[:a] + mid[b + len("//@@LITGET-END@@"):]
    ub.out("// @@FILE prelude/ctx.rs (part 3: shared definitions)\n" + mid)


def build(ub, algebra_text):
    concrete_prelude(ub, algebra_text)
    ub.emit_assumed("expr_ref_to_usize")
    ub.emit_assumed("expr_ref_from_usize")
    ub.emit_assumed_in("BitVecValueIndex::width", "impl BitVecValueIndex")
    conv = {"receivers": {}, "no_canary": True, "replace": [["index.into()", "expr_ref_to_usize(index)"]]}
    ub.emit_fn(CTX, "index", "verify", impl="impl Index<ExprRef> for Context", spec_key="Context::index", cfg=conv)
    ub.emit_fn(CTX, "get_bv_value", "stub")
    ub.emit_fn(NODES, "get", "verify", impl="impl BVLitValue", spec_key="BVLitValue::get", cfg={"receivers": {}, "no_canary": True})
    ub.emit_fn(NODES, "width", "verify", impl="impl BVLitValue", spec_key="BVLitValue::width", cfg={"receivers": {}, "no_canary": True})
    ub.emit_fn(NODES, "new", "verify", impl="impl BVLitValue", spec_key="BVLitValue::new", cfg={"receivers": {}, "no_canary": True})
    ub.emit_raw("lemmas/context.rs", {"//@@GENERATED-LEMMAS@@": rd("lemmas/context_gen.rs")})
    ub.emit_fn(CTX, "add_expr", "verify", impl="impl Context", cfg={"receivers": {}, "replace": [["index.into()", "expr_ref_from_usize(index)"]]})
    tcfg = {"receivers": {"ctx": "node"}, "no_canary": True}
    ub.emit_fn(TYPES, "get_type", "verify", impl="impl TypeCheck for Expr", spec_key="Expr::get_type", cfg=dict(tcfg, split={"nth": 0, "on": "*self"}))
    ub.emit_fn(TYPES, "get_type", "verify", impl="impl TypeCheck for ExprRef", spec_key="ExprRef::get_type", cfg=tcfg)
    ub.emit_fn(TYPES, "get_bv_type", "verify", impl="trait TypeCheck", spec_key="ExprRef::get_bv_type", cfg=tcfg)
    for m in ("is_bit_vector", "is_array", "is_bool", "get_bit_vector_width", "get_array_data_width", "get_array_index_width"):
        ub.emit_fn(NODES, m, "verify", impl="impl Type", spec_key="Type::" + m, cfg={"receivers": {}, "no_canary": True})
    bcfg = {"receivers": {"self": "node_raw"}}  # `self[e]` inside a builder is the real Index impl (verified above as node_raw)
    for b in L1_BUILDERS:
        if b in ("zero_extend", "sign_extend", "slice"):  # C12: structural contract (contracts/context_l1.spec), stronger than the one other units assume
            ub.emit_fn(CTX, b, "verify", impl="impl Context", spec_key="l1::" + b, cfg=dict(bcfg, obligation_name=b))
        else:
            ub.emit_fn(CTX, b, "verify", impl="impl Context", cfg=bcfg)
    ub.emit_fn(CTX, "bit_vec_val", "verify", impl="impl Context",
               cfg={"receivers": {}, "replace": [["value.try_into()", "try_into_u128(value)"], ["width.try_into()", "try_into_width(width)"]]})
    ub.emit_fn(CTX, "default", "verify", impl="impl Default for Context", spec_key="Context::default",
               cfg={"receivers": {}, "no_canary": True,
                    "replace": [["strings: Default::default()", "strings: IndexSet::default()"], ["exprs: Default::default()", "exprs: IndexSet::default()"],
                                ["values: Default::default()", "values: ValueInterner::default()"], ["0.into()", "expr_ref_from_usize(0)"]]})
    ub.out("} // verus!\nfn main() {}\n")
