"""Unit builder_forward (C01 / C12): rewrite R2 spells `ctx.build(|c| c.f(x, c.g(y)))` as `ctx.g(y); ctx.f(x, ..)`.  That is sound iff every
method of `impl Builder` forwards to the method of `Context` with the SAME name and the SAME arguments in the SAME order:

        pub fn NAME(&self, P1: T1, .., Pn: Tn) -> R { self.ctx.borrow_mut().NAME(P1, .., Pn) }        (or `.borrow()`)

One obligation per method, decided by this syntactic rule (no SMT query is needed: under the RefCell contract `borrow_mut()` yields
the wrapped `&mut Context`, so the body IS the call).  A body of the forwarding shape that names another method or passes other / permuted
arguments FAILS (the builder does not build what the contract of `Context::NAME` says); any other shape is undecided."""
import re
from vx.extract import Source
from vx.lexer import lex, code_toks, match_close, split_top_level

NAME = "builder_forward"
CTX = "patronus/src/expr/context.rs"


def run(repo, Obligation):
    import os
    src = Source(os.path.join(repo, CTX), CTX) if False else None
    text = open(os.path.join(repo, CTX), encoding="utf-8").read()
    obls, info = [], {"unit": NAME, "engine": "VA", "checker_cmd": "syntactic forwarding rule (units/builder_forward.py)", "wall_s": 0.0,
                      "functions_under_contract": []}
    blocks = [m for m in re.finditer(r"impl<'a> Builder<'a> \{", text)]
    if not blocks:
        obls.append(Obligation(f"va:{NAME}:<build>", "VA", NAME, "<build>", "undecided", "syntactic rule", detail={"reason": "`impl<'a> Builder<'a>` not found"}))
        return obls, info
    T = code_toks(lex(text))
    n = 0
    for m in blocks:
        ob = next(k for k, t in enumerate(T) if t.start >= m.end() - 1 and t.text == "{")
        cb = match_close(T, ob)
        i = ob + 1
        while i < cb:
            if T[i].kind == "ident" and T[i].text == "fn":
                name = T[i + 1].text
                j = i + 2
                while T[j].text != "(":
                    j += 1
                pe = match_close(T, j)
                params = [p for p in split_top_level(T[j + 1:pe], ",") if p]
                pnames = [p[0].text for p in params if p[0].text not in ("&", "self", "mut") and not (p[0].text == "&")]
                pnames = [x for x in pnames if x != "self"]
                k = pe
                while T[k].text != "{":
                    k += 1
                be = match_close(T, k)
                body = text[T[k].start + 1:T[be].start].strip()
                line = text[:T[i].start].count("\n") + 1
                oid = f"va:{NAME}:{name}"
                if name == "new":
                    i = be + 1
                    continue
                info["functions_under_contract"].append(f"{CTX}:{line} Builder::{name}")
                mm = re.match(r"^self\.ctx\.borrow(?:_mut)?\(\)\s*\.\s*([A-Za-z_0-9]+)\((.*)\)$", body, re.S)
                if not mm:
                    obls.append(Obligation(oid, "VA", NAME, name, "undecided", "syntactic rule", src=f"{CTX}:{line}",
                                           detail={"reason": "body is not of the forwarding shape `self.ctx.borrow_mut().f(args)`", "body": body[:300]}))
                else:
                    callee = mm.group(1)
                    args = [a.strip() for a in mm.group(2).split(",") if a.strip()]
                    if callee == name and args == pnames:
                        obls.append(Obligation(oid, "VA", NAME, name, "discharged", "syntactic rule", src=f"{CTX}:{line}"))
                    else:
                        why = (f"Builder::{name} forwards to Context::{callee}" if callee != name else
                               f"Builder::{name} passes ({', '.join(args)}) for parameters ({', '.join(pnames)})")
                        obls.append(Obligation(oid, "VA", NAME, name, "failed", "syntactic rule", src=f"{CTX}:{line}",
                                               detail={"errors": [{"message": "postcondition not satisfied: result == Context::%s(%s); %s" % (name, ", ".join(pnames), why)}],
                                                       "contract": f"ensures res == Context::{name}({', '.join(pnames)}) on the wrapped context"}))
                n += 1
                i = be + 1
            else:
                i += 1
    info["methods"] = n
    return obls, info
