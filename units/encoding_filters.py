"""Unit encoding_filters (C04, clause "every symbol is declared or defined exactly once"):
the use-based filters of init_at / unroll (mc/encoding.rs) and the schedule of define_signals calls, both read off the real text."""
import os, re
from vx.callsites import call_sites
from vx.extract import AnchorError
from vx.lexer import lex, code_toks

NAME = "encoding_filters"
PROPERTIES = ["C04"]
SPECS = []
ENC = "patronus/src/mc/encoding.rs"
ANA = "patronus/src/system/analysis.rs"


def closure_body(arg: str):
    """`&|info: &SmtSignalInfo| BODY` -> BODY (braces stripped)"""
    m = re.match(r"^\s*&\s*\|\s*info\s*:\s*&\s*SmtSignalInfo\s*\|\s*(.*)$", arg, re.S)
    if not m:
        raise AnchorError(f"unexpected filter argument `{arg[:60]}`")
    b = m.group(1).strip()
    if b.startswith("{") and b.endswith("}"):
        b = b[1:-1].strip()
    return b


def build(ub, algebra_text):
    ub.out("use vstd::prelude::*;\nverus! {\n")
    ub.out("#[derive(PartialEq, Eq, Clone, Copy, Structural)]\npub struct StringRef(pub u32);\npub type UseCountInt = u16;\npub type Step = u64;\n")
    ub.emit_item(ANA, "struct", "Uses", "")
    ub.emit_item(ENC, "struct", "SmtSignalInfo", "", replace=[["\n    " + f + ":", "\n    pub " + f + ":"] for f in ("id", "name", "uses", "is_state", "is_input", "is_const")])
    src = ub.src(ENC)
    impl = "impl TransitionSystemEncoding for UnrollSmtEncoding"
    init_at = src.find_fn("init_at", impl)
    unroll = src.find_fn("unroll", impl)
    # ---- init_at(step): every call `self.define_signals(ctx, smt_ctx, STEP, &|info| F)` with its path condition
    def render(item, params, lets):
        sites = call_sites(item.body, "define_signals")
        if not sites:
            raise AnchorError(f"no define_signals call in {item.name}")
        terms = []
        for k, s in enumerate(sites):
            if len(s["args"]) != 4:
                raise AnchorError("define_signals arity")
            step_arg = s["args"][2]
            f = re.sub(r"\s+", " ", closure_body(s["args"][3]))
            conds = " && ".join(("(" + c + ")") if pol else ("!(" + c + ")") for pol, c in s["conds"]) or "true"
            line = item.line + item.body[:s["pos"]].count("\n")
            ub.out(f"// call site {k + 1} of define_signals in {item.name}  <- {ENC}:{line}\n"
                   f"//   path condition: {conds}\n//   step argument : {step_arg}\n//   filter        : {f}")
            terms.append(f"(if ({conds}) && (({step_arg}) as int == k) && ({f}) {{ 1int }} else {{ 0int }})")
        ub.emitted.append(type(ub.emitted[0])(item.name + ":schedule", "item", ENC, item.line, 0, 0, sha256=""))
        return (f"pub open spec fn {item.name}_defs({params}, k: int, info: SmtSignalInfo) -> int {{\n{lets}    " + "\n    + ".join(terms) + "\n}\n")
    ub.out(render(init_at, "step: Step", ""))
    # unroll: locals prev_step / next_step / init_signals_defined are `let`s of the real text
    T = unroll.body
    m1 = re.search(r"let\s+prev_step\s*=\s*self\.current_step\.unwrap\(\)\s*;", T)
    m2 = re.search(r"let\s+next_step\s*=\s*([^;]+);", T)
    if not (m1 and m2):
        raise AnchorError("unroll: prev_step / next_step bindings not found")
    lets = f"    let next_step: int = {m2.group(1).strip()};\n"
    m3 = re.search(r"let\s+init_signals_defined\s*=\s*([^;]+);", T)
    if m3:
        lets += f"    let init_signals_defined: bool = {m3.group(1).strip().replace('self.offset', 'offset')};\n"
    ub.out(render(unroll, "offset: Option<Step>, prev_step: Step", lets))
    base = os.path.dirname(os.path.dirname(os.path.abspath(__file__)))
    ub.emit_raw("lemmas/encoding.rs")
    ub.out("} // verus!\nfn main() {}\n")
