"""Unit encoding_filters (C04, clause "every symbol is declared or defined exactly once"):
the use-based filters of init_at / unroll (mc/encoding.rs) and the schedule of define_signals calls, both read off the real text."""
import os, re
from vx.callsites import call_sites
from vx.extract import AnchorError
from vx.lexer import lex, code_toks

NAME = "encoding_filters"
PROPERTIES = ["C04"]
SPECS = []
ENC = "patronus/src/mc/encoding.rs"
ANA = "patronus/src/system/analysis.rs"


def closure_body(arg: str):
    """`&|info: &SmtSignalInfo| BODY` -> BODY (braces stripped)"""
    m = re.match(r"^\s*&\s*\|\s*info\s*:\s*&\s*SmtSignalInfo\s*\|\s*(.*)$", arg, re.S)
    if not m:
        raise AnchorError(f"unexpected filter argument `{arg[:60]}`")
    b = m.group(1).strip()
    if b.startswith("{") and b.endswith("}"):
        b = b[1:-1].strip()
    return b


def build(ub, algebra_text):
    ub.out("use vstd::prelude::*;\nverus! {\n")
    ub.out("#[derive(PartialEq, Eq, Clone, Copy, Structural)]\npub struct StringRef(pub u32);\npub type UseCountInt = u16;\npub type Step = u64;\n")
    ub.emit_item(ANA, "struct", "Uses", "")
    ub.emit_item(ENC, "struct", "SmtSignalInfo", "", replace=[["\n    " + f + ":", "\n    pub " + f + ":"] for f in ("id", "name", "uses", "is_state", "is_input", "is_const")])
    src = ub.src(ENC)
    impl = "impl TransitionSystemEncoding for UnrollSmtEncoding"
    init_at = src.find_fn("init_at", impl)
    unroll = src.find_fn("unroll", impl)
    # what the exactly-once theorems REST ON without having it under contract (closures over hash sets, string-built names, the
    # transform with a capturing closure): pinned by hash, so that a change is reported as undecided instead of passing silently
    for fn_name in ("define_signals", "create_signal_symbols_in_step", "signal_sym_in_step", "expr_in_step", "new"):
        ub.pin_assumed_fn(ENC, fn_name, "impl UnrollSmtEncoding", "not under contract (outside the dialect); pinned by hash")
    ub.pin_assumed_fn(ENC, "get_signal_at", impl, "not under contract; pinned by hash")
    ub.pin_assumed_fn("patronus/src/system/transition_system.rs", "is_const", "impl State", "decides which states get one un-stepped symbol; not under contract; pinned by hash")
    # ---- init_at(step): every call `self.define_signals(ctx, smt_ctx, STEP, &|info| F)` with its path condition
    def render(item, params, lets):
        sites = call_sites(item.body, "define_signals")
        if not sites:
            raise AnchorError(f"no define_signals call in {item.name}")
        terms = []
        for k, s in enumerate(sites):
            if len(s["args"]) != 4:
                raise AnchorError("define_signals arity")
            step_arg = s["args"][2]
            f = re.sub(r"\s+", " ", closure_body(s["args"][3]))
            conds = " && ".join(("(" + c + ")") if pol else ("!(" + c + ")") for pol, c in s["conds"]) or "true"
            line = item.line + item.body[:s["pos"]].count("\n")
            ub.out(f"// call site {k + 1} of define_signals in {item.name}  <- {ENC}:{line}\n"
                   f"//   path condition: {conds}\n//   step argument : {step_arg}\n//   filter        : {f}")
            terms.append(f"(if ({conds}) && (({step_arg}) as int == k) && ({f}) {{ 1int }} else {{ 0int }})")
        ub.emitted.append(type(ub.emitted[0])(item.name + ":schedule", "item", ENC, item.line, 0, 0, sha256=""))
        return (f"pub open spec fn {item.name}_defs({params}, k: int, info: SmtSignalInfo) -> int {{\n{lets}    " + "\n    + ".join(terms) + "\n}\n")
    # fields of `self` that init_at sets at its top level (`self.F = EXPR;`, EXPR over `step`): their value during the following unroll
    # calls is EXPR[step := s] unless unroll assigns them itself (then they are not substituted and the check is undecided if read)
    def top_level_field_stores(item):
        T = code_toks(lex(item.body))
        out = {}
        depth = 0
        for i, t in enumerate(T):
            if t.kind == "punct" and t.text in "{([":
                depth += 1
            elif t.kind == "punct" and t.text in "})]":
                depth -= 1
            elif depth == 1 and t.text == "self" and i + 3 < len(T) and T[i + 1].text == "." and T[i + 3].text == "=" \
                    and (i == 0 or T[i - 1].text in (";", "{", "}")):
                j = i + 4
                d = 0
                while j < len(T):
                    x = T[j]
                    if x.kind == "punct" and x.text in "{([":
                        d += 1
                    elif x.kind == "punct" and x.text in "})]":
                        d -= 1
                    elif x.text == ";" and d == 0:
                        break
                    j += 1
                out[T[i + 2].text] = item.body[T[i + 4].start:T[j - 1].end]
        return out
    init_fields = top_level_field_stores(init_at)
    unroll_fields = top_level_field_stores(unroll)
    def resolve(text, var_step, allow):
        def sub(m):
            f = m.group(1)
            if f in allow:
                return "(" + re.sub(r"\bstep\b", var_step, allow[f]) + ")"
            return m.group(0)
        return re.sub(r"\bself\.([a-z_][A-Za-z0-9_]*)\b(?!\s*\()", sub, text)
    # inside init_at a field read after its store sees the stored value
    init_text = render(init_at, "step: Step", "")
    ub.out(resolve(init_text, "step", {k: v for k, v in init_fields.items()}))
    T = unroll.body
    m1 = re.search(r"let\s+prev_step\s*=\s*self\.current_step\.unwrap\(\)\s*;", T)
    m2 = re.search(r"let\s+next_step\s*=\s*([^;]+);", T)
    if not (m1 and m2):
        raise AnchorError("unroll: prev_step / next_step bindings not found")
    lets = f"    let next_step: int = {m2.group(1).strip()};\n"
    for m3 in re.finditer(r"let\s+([a-z_][A-Za-z0-9_]*)\s*=\s*([^;]+);", T):
        if m3.group(1) in ("prev_step", "next_step") or m3.start() > T.find("define_signals"):
            continue
        if "ctx" in m3.group(2) or "(" in m3.group(2).replace("Some(", "").replace("unwrap(", ""):
            continue
        lets += f"    let {m3.group(1)} = {m3.group(2).strip()};\n"
    stable = {k: v for k, v in init_fields.items() if k not in unroll_fields}
    unroll_text = render(unroll, "s: Step, prev_step: Step", lets)
    unroll_text = resolve(unroll_text, "s", stable)
    if re.search(r"\bself\b", unroll_text) or re.search(r"\bself\b", resolve(init_text, "step", init_fields)):
        raise AnchorError("the define_signals schedule reads state of `self` that is not a top-level store of init_at")
    ub.out(unroll_text)
    base = os.path.dirname(os.path.dirname(os.path.abspath(__file__)))
    ub.emit_raw("lemmas/encoding.rs")
    ub.pin_rest_of_file(ENC)   # frame: the other functions of the file (DESIGN 11.12)
    ub.out("} // verus!\nfn main() {}\n")
