"""Unit dse_coalesce (C20): coalesce_entries of value_summary.rs, verbatim, with delete_entries under its (Kani-checked) contract."""
NAME = "dse_coalesce"
PROPERTIES = ["C20"]
SPECS = ["contracts/dse.spec"]
VS = "patronus-dse/src/value_summary.rs"


def build(ub, algebra_text):
    import os
    ub.out("use vstd::prelude::*;\nverus! {\n")
    base = os.path.dirname(os.path.dirname(os.path.abspath(__file__)))
    pre, post = open(os.path.join(base, "prelude/dse.rs")).read().split("//@@EXTRACTED-ITEMS@@")
    ub.out("// @@FILE prelude/dse.rs (part 1)\n" + pre)
    ub.emit_item(VS, "struct", "Entry", "", replace=[["<V: Clone>", "<V: Value>"], ["guard: Guard", "pub guard: Guard"], ["value: V", "pub value: V"]])
    ub.out("// @@FILE prelude/dse.rs (part 2)\n" + post)
    ub.emit_raw("lemmas/dse.rs")
    ub.emit_fn(VS, "delete_entries", "stub")
    ub.emit_fn(VS, "coalesce_entries", "verify",
               cfg={"receivers": {}, "field_store": True,
                    "replace": [["delete_list.sort_unstable();", "sort_unstable_usize(&mut delete_list);"],
                                # type ascriptions only (rustc infers them from later uses; the loop invariant needs them earlier)
                                ["let mut by_value = FxHashMap::", "let mut by_value: FxHashMap<V, usize> = FxHashMap::"],
                                ["let mut delete_list = vec![];", "let mut delete_list: Vec<usize> = vec![];"]]})
    # ---- operations of the summary that are NOT under contract (hash sets, iterator adapters, real BDD calls): the claim does not
    # cover them; their text is pinned so that a change is reported as undecided instead of passing silently
    # (new, to_guard, import_into_guard and apply_ite are verified in unit dse_guard)
    for fn_name, impl in (("apply_bin_op", "impl<V: Value> ValueSummary<V>"),):
        ub.pin_assumed_fn(VS, fn_name, impl, "not under contract (outside the dialect); pinned by hash")
    # ---- apply_ite: the merge loops
    import re
    ub.emit_item(VS, "struct", "ValueSummary", "", replace=[["entries:", "pub entries:"]])
    ub.emit_fn(VS, "len", "verify", impl="impl<V: Value> ValueSummary<V>", spec_key="ValueSummary::len", cfg={"receivers": {}, "no_canary": True})
    item = ub.src(VS).find_fn("apply_ite", "impl<V: Value + ToGuard> ValueSummary<V>")
    a = item.body.find("let mut entries = Vec::with_capacity(")
    b = item.body.rfind("ValueSummary { entries }")
    if a < 0 or b < a:
        from vx.extract import AnchorError
        raise AnchorError("apply_ite: merge statements not found")
    frag = item.body[a:b]
    frag = re.sub(r"//[^\n]*", "", frag)
    # name the two for-loop iterators (ghost names only) and give `entries` its element type
    n = [0]
    def name_it(m):
        n[0] += 1
        return f"for {m.group(1)} in it__{n[0]}: "
    frag = re.sub(r"\bfor (\w+) in ", name_it, frag)
    frag = frag.replace("let mut entries = Vec::with_capacity(", "let mut entries: Vec<Entry<V>> = Vec::with_capacity(")
    line = item.line + item.body[:a].count("\n")
    post = ("proof { lemma_ite_merge(old(gc), gc, t0, f0, tru_cond, fals_cond, entries@); }\n    entries")
    ub.emit_synth("ite_merge", "ite_merge",
                  "fn ite_merge<V: Value>(gc: &mut GuardCtx, tru: ValueSummary<V>, fals: ValueSummary<V>, tru_cond: Guard, fals_cond: Guard) -> Vec<Entry<V>>",
                  "{ " + frag + post + " }", VS, line, {"receivers": {}}, note="the merge statements of apply_ite, verbatim (iterators named)")
    ub.out("} // verus!\nfn main() {}\n")
