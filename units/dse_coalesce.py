"""Unit dse_coalesce (C20): coalesce_entries of value_summary.rs, verbatim, with delete_entries under its (Kani-checked) contract."""
NAME = "dse_coalesce"
PROPERTIES = ["C20"]
SPECS = ["contracts/dse.spec"]
VS = "patronus-dse/src/value_summary.rs"


def build(ub, algebra_text):
    import os
    ub.out("use vstd::prelude::*;\nverus! {\n")
    base = os.path.dirname(os.path.dirname(os.path.abspath(__file__)))
    pre, post = open(os.path.join(base, "prelude/dse.rs")).read().split("//@@EXTRACTED-ITEMS@@")
    ub.out("// @@FILE prelude/dse.rs (part 1)\n" + pre)
    ub.emit_item(VS, "struct", "Entry", "", replace=[["<V: Clone>", "<V: Value>"], ["guard: Guard", "pub guard: Guard"], ["value: V", "pub value: V"]])
    ub.out("// @@FILE prelude/dse.rs (part 2)\n" + post)
    ub.emit_fn(VS, "delete_entries", "stub")
    ub.emit_fn(VS, "coalesce_entries", "verify",
               cfg={"receivers": {}, "field_store": True, "no_canary": True,
                    "replace": [["delete_list.sort_unstable();", "sort_unstable_usize(&mut delete_list);"],
                                # type ascriptions only (rustc infers them from later uses; the loop invariant needs them earlier)
                                ["let mut by_value = FxHashMap::", "let mut by_value: FxHashMap<V, usize> = FxHashMap::"],
                                ["let mut delete_list = vec![];", "let mut delete_list: Vec<usize> = vec![];"]]})
    ub.out("} // verus!\nfn main() {}\n")
