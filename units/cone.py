"""Unit cone (C17): cone_of_influence_impl and its three public wrappers (system/analysis.rs), verbatim."""
import os
from units.simplify_rules import common_prelude, NODES
NAME = "cone"
PROPERTIES = ["C17"]
SPECS = ["contracts/context.spec", "contracts/nodes.spec", "contracts/analysis.spec"]
ANA = "patronus/src/system/analysis.rs"
TS = "patronus/src/system/transition_system.rs"


def build(ub, algebra_text):
    common_prelude(ub, algebra_text)
    base = os.path.dirname(os.path.dirname(os.path.abspath(__file__)))
    pre, post = open(os.path.join(base, "prelude/sys.rs")).read().split("//@@EXTRACTED-ITEMS@@")
    ub.emit_raw("lemmas/seqs.rs")
    ub.out(pre)
    ub.emit_item(TS, "struct", "State", "#[derive(PartialEq, Eq, Structural)]")
    ub.out(post)
    ub.emit_fn(NODES, "is_symbol", "stub", impl="impl Expr")
    ub.emit_fn(TS, "is_const", "stub", impl="impl State", spec_key="State::is_const")   # Option::map with a closure: assumed, pinned
    ub.emit_fn(ANA, "cone_of_influence_impl", "verify",
               cfg={"receivers": {"ctx": "node"}, "let_chains": True, "for_each_child": True, "no_canary": False,
                    "replace": [["let mut out = vec![];", "let mut out: Vec<ExprRef> = vec![];"]]})
    for w in ("cone_of_influence", "cone_of_influence_init", "cone_of_influence_comb"):
        ub.emit_fn(ANA, w, "verify", cfg={"receivers": {}})
    ub.out("} // verus!\nfn main() {}\n")
