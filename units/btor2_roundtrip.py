"""Unit btor2_roundtrip (C09, clause "operator and literal spelling are inverse to the reader"):
for every Expr variant the writer's arm (keyword, operand order, attributes — read off the format string of write_node)
composed with the reader's arm for that keyword (contract of unit btor2_lower) rebuilds an expression with the same
denotation and type."""
import re
from vx.extract import find_match, match_arms, AnchorError
from vx.arms import enum_variants, pattern_bindings
from units.simplify_rules import common_prelude, NODES, CTX, TYPES
from units import btor2_lower as BL

NAME = "btor2_roundtrip"
PROPERTIES = ["C09"]
SPECS = ["contracts/context.spec", "contracts/nodes.spec", "contracts/btor2.spec", "contracts/btor2_lit.spec"]
SER = "patronus/src/btor2/serialize.rs"
PARSE = BL.PARSE

UN = {"not", "neg", "uext", "sext", "slice", "redor", "redand"}
TER = {"ite", "write"}


def parse_write(body: str):
    """`write!(writer, "{id} KW {sort} {} {by}", children[0])?` -> (KW, [operand child indices in written order], [(token_index, attr_name)])"""
    m = re.search(r'write!\(\s*writer\s*,\s*"([^"]*)"\s*((?:,\s*[^,)]+)*)\s*,?\s*\)', body, re.S)
    if not m:
        return None
    fmt = m.group(1).split()
    args = [a.strip() for a in m.group(2).split(",") if a.strip()]
    if len(fmt) < 3 or fmt[0] != "{id}" or fmt[2] != "{sort}":
        raise AnchorError(f"unexpected btor2 line format `{m.group(1)}`")
    kw = fmt[1]
    kids, attrs = [], []
    ai = 0
    for ti, f in enumerate(fmt[3:], start=3):
        if f == "{}":
            mm = re.match(r"children\[(\d+)\]$", args[ai])
            if not mm:
                raise AnchorError(f"unexpected write! argument `{args[ai]}`")
            kids.append((ti, int(mm.group(1))))
            ai += 1
        else:
            mm = re.match(r"\{([a-z_]+)\}$", f)
            if not mm:
                raise AnchorError(f"unexpected format item `{f}`")
            attrs.append((ti, mm.group(1)))
    return kw, kids, attrs


def build(ub, algebra_text):
    common_prelude(ub, algebra_text)
    ub.emit_raw("prelude/btor2.rs", {"//@@CONST-BOOL@@": re.search(r"pub const BOOL: Type = [^;]+;", ub.src(NODES).src).group(0)})
    for b in ("zero", "one", "bv_lit"):
        ub.emit_fn(CTX, b, "stub")
    # the line-level plumbing of the writer (which lines are written for inputs / states / init / next / outputs / bad / constraints,
    # ids, names) is string and iterator code outside the dialect: NOT under contract; pinned by hash so that a change is reported
    ub.pin_assumed_fn(SER, "serialize_sys", "impl<'a, W: Write> Serializer<'a, W>", "not under contract (writeln!-based emission of the system's lines); pinned by hash")
    psrc = ub.src(PARSE)
    # reader arms as stubs carrying the contracts verified in unit btor2_lower
    readers = {}
    for fn_name, prefix, params, ret in (("parse_unary_op", "btor2_un", "e: ExprRef", "(ExprRef, usize)"),
                                         ("parse_bin_op", "btor2_bin", "a: ExprRef, b: ExprRef", "ExprRef"),
                                         ("parse_ternary_op", "btor2_ter", "a: ExprRef, b: ExprRef, c: ExprRef", "ExprRef")):
        item = psrc.find_fn(fn_name, "impl<'a> Parser<'a>")
        arms = match_arms(item.body, find_match(item.body, 0, "tokens[1]"))
        for a in arms:
            for k in re.findall(r'"([a-z0-9_]+)"', a.pat):
                if re.search(r"\b(todo|panic)!", a.body) or k in BL.OUTSIDE:
                    continue
                line = item.line + item.body[:a.start].count("\n")
                sig = f"fn {prefix}_{k}(ctx: &mut Context, line: &str, tokens: &[&str], tpe: Type, {params}) -> ParseLineResult<{ret}>"
                ub.emit_synth(f"{prefix}_{k}", f"{prefix}_{k}", sig, a.body, PARSE, line, {}, mode="stub")
                readers[k] = prefix
    # writer table
    ssrc = ub.src(SER)
    enum_text, _ = ub.src(NODES).find_item("enum", "Expr")
    variants = enum_variants(enum_text)
    item = ssrc.find_fn("write_node")
    arms = match_arms(item.body, find_match(item.body, 0, "expr"))
    ub.arm_notes = []
    seen = set()
    for a in arms:
        line = item.line + item.body[:a.start].count("\n")
        vs = re.findall(r"Expr::([A-Za-z]+)", a.pat)
        seen.update(vs)
        if re.search(r"\bunreachable!", a.body):
            if not set(vs) <= {"BVSymbol", "ArraySymbol"}:
                raise AnchorError(f"write_node: unreachable! arm covers {vs}")
            continue
        if "write_bv_literal" in a.body:
            continue   # literals: below
        w = parse_write(a.body)
        if w is None:
            if "Err(" in a.body and vs == ["ArrayConstant"]:
                ub.arm_notes.append(f"{SER}:{line} ArrayConstant: the writer returns an error (no btor2 operator); nothing to round-trip")
                continue
            raise AnchorError(f"write_node arm for {vs} is not a write!")
        kw, kids, attrs = w
        kw_of = {v: kw for v in vs}
        mk = re.match(r"\{([a-z_]+)\}$", kw)
        if mk:
            # the keyword is computed: `let NAME = FUNC(expr);` with FUNC a table `match expr { Expr::V(..) => "kw", .. }` in the same file
            ml = re.search(r"let\s+" + mk.group(1) + r"\s*=\s*([a-z_][a-z0-9_]*)\(expr\);", a.body)
            if not ml:
                raise AnchorError(f"write_node: keyword `{kw}` for {vs} is not a literal and not a table lookup")
            tf = ssrc.find_fn(ml.group(1))
            table = {}
            for ta in match_arms(tf.body, find_match(tf.body, 0, "expr")):
                lit = re.match(r'^\s*"([a-z0-9_]+)"\s*$', ta.body)
                for tv in re.findall(r"Expr::([A-Za-z]+)", ta.pat):
                    if lit:
                        table[tv] = lit.group(1)
            missing_kw = [v for v in vs if v not in table]
            if missing_kw:
                raise AnchorError(f"{ml.group(1)}: no string literal for {missing_kw}")
            kw_of = {v: table[v] for v in vs}
        for v in vs:
            if kw_of[v] not in readers:
                raise AnchorError(f"writer emits keyword `{kw_of[v]}` for {v} but the reader has no supported arm for it")
        if False:
            raise AnchorError(f"writer emits keyword `{kw}` for {vs} but the reader has no supported arm for it")
        for v in vs:
            kw = kw_of[v]
            prefix = readers[kw]
            info = variants[v]
            # bind every field by name: tuple fields get f0, f1, ..
            if info["kind"] == "tuple":
                names = [f"f{k}" for k, _ in info["fields"]]
                pat = f"Expr::{v}({', '.join(names)})"
                fld = {n: f"{v}_{k}" for n, (k, _) in zip(names, info["fields"])}
            else:
                names = [k for k, _ in info["fields"]]
                pat = f"Expr::{v} {{ {', '.join(names)} }}"
                fld = {n: f"{v}_{n}" for n in names}
            refnames = [n for n, (_, t) in zip(names, info["fields"]) if t.strip() == "ExprRef"]
            if sorted(i for _, i in kids) != list(range(len(refnames))):
                raise AnchorError(f"writer arm for {v} does not write each operand exactly once: {kids}")
            args = ", ".join(refnames[i] for _, i in kids)
            ntok = 3 + len(kids) + len(attrs)
            req_attr = "".join(f"num_of(tokens@[{ti}]@) == old(ctx).nodes()[r]->{v}_{an},\n" for ti, an in attrs)
            take = ".0" if prefix == "btor2_un" else ""
            key = f"roundtrip_{v}"
            from vx.spec import FnSpec
            ub.specs[key] = FnSpec(key, requires=f"old(ctx).wf(), old(ctx).has(r), old(ctx).nodes()[r] is {v}, tpe == old(ctx).ty(r), tokens@.len() == {ntok},\n{req_attr}",
                                   ensures="final(ctx).extends(old(ctx)), final(ctx).wf(),\nmatch res { Ok(x) => final(ctx).has(x) && final(ctx).den(x) == old(ctx).den(r) && final(ctx).ty(x) == old(ctx).ty(r), Err(_) => true },\n",
                                   prefix="broadcast use group_bv_algebra, group_arith;\n")
            body = (f"{{ let n__ = (*ctx.node(r)).clone();\n    match n__ {{\n        {pat} => {{ let x__ = {prefix}_{kw}(ctx, line, tokens, tpe, {args})?; Ok(x__{take}) }}\n"
                    f"        _ => unreached(),\n    }}\n}}")
            sig = f"fn roundtrip_{v}(ctx: &mut Context, r: ExprRef, line: &str, tokens: &[&str], tpe: Type) -> ParseLineResult<ExprRef>"
            ub.emit_synth(key, key, sig, body, SER, line, {"receivers": {}, "no_canary": False},
                          note=f"writer arm: keyword `{kw}`, operands {[i for _, i in kids]}, attributes {[an for _, an in attrs]} (read off the write! format); composed with the reader arm `{kw}`")
    missing = set(variants) - seen
    if missing:
        raise AnchorError(f"write_node does not mention variants {sorted(missing)}")
    # ---- literals: write_bv_literal's if-chain against parse_format / parse_ones
    lit = ssrc.find_fn("write_bv_literal")
    chain = re.findall(r'(?:if|else if)\s+(v\.[a-z_]+\(\))\s*\{\s*write!\(writer,\s*"\{id\} ([a-z]+) \{sort\}"\)\s*\}', lit.body)
    m_else = re.search(r'else\s*\{\s*write!\(writer,\s*"\{id\} ([a-z]+) \{sort\} \{\}",\s*v\.to_bit_str\(\)\)\s*\}', lit.body)
    if len(chain) < 1 or not m_else:
        raise AnchorError("write_bv_literal: unexpected shape")
    pf = psrc.find_fn("parse_format", "impl<'a> Parser<'a>")
    rd = dict(re.findall(r'"([a-z]+)"\s*=>\s*(Ok\(self\.ctx\.[a-z_]+\(width\)\)|self\.parse_bv_lit_str\(line, tokens\[3\], \d+, width\))', pf.body))
    po = psrc.find_fn("parse_ones", "impl<'a> Parser<'a>")
    m_ones = re.search(r"let value = (baa::BitVecValue::ones\(width\));\s*Ok\(\(self\.ctx\.bv_lit\(&value\), 3\)\)", po.body)
    if not m_ones:
        raise AnchorError("parse_ones: unexpected shape")
    def reader_expr(kw):
        if kw == "ones":
            return "{ let value = BitVecValue::ones(width); ctx.bv_lit(&value) }"
        if kw not in rd:
            raise AnchorError(f"writer emits literal keyword `{kw}` that parse_format does not read")
        e = rd[kw]
        if e.startswith("Ok("):
            return e[3:-1].replace("self.ctx", "ctx")
        mm = re.match(r"self\.parse_bv_lit_str\(line, tokens\[3\], (\d+), width\)", e)
        # `s__` stands for the text v.to_bit_str() (an owned copy of the value)
        return f"{{ let s__ = BitVecValue::from(v); parse_bit_string(ctx, &s__, {mm.group(1)}, width) }}"
    body = "{ let v = value.get(ctx);\n"
    for k, (cond, kw) in enumerate(chain):
        body += ("    if " if k == 0 else "    else if ") + cond + " { " + reader_expr(kw) + " }\n"
    body += "    else { " + reader_expr(m_else.group(1)) + " }\n}"
    ub.emit_synth("roundtrip_literal", "roundtrip_literal", "fn roundtrip_literal(ctx: &mut Context, value: BVLitValue, width: WidthInt) -> ExprRef",
                  body, SER, lit.line, {"receivers": {}},
                  note="write_bv_literal's case split (conditions verbatim) composed with the reader expressions of parse_format / parse_ones for the emitted keywords")
    ub.out("} // verus!\nfn main() {}\n")
