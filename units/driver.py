"""Unit driver (C01 / C13 chain): the traversal around the rewrite rules — do_transform_expr (transform.rs), Simplifier::simplify
and simplify_single_expression (simplify.rs) — verbatim, PARTIAL correctness (no termination claim)."""
import os
from units.simplify_rules import common_prelude, NODES, DERIVE_COPY
NAME = "driver"
PROPERTIES = ["C01"]
SPECS = ["contracts/context.spec", "contracts/nodes.spec", "contracts/simplify.spec", "contracts/transform.spec", "contracts/driver.spec"]
BASE = os.path.dirname(os.path.dirname(os.path.abspath(__file__)))
META = "patronus/src/expr/meta.rs"
TRANS = "patronus/src/expr/transform.rs"
SIMP = "patronus/src/expr/simplify.rs"


SIMPLIFIER_INV = """
impl<T: ExprMap<Option<ExprRef>>> Simplifier<T> {
    /// what holds of a Simplifier between calls
    pub open spec fn inv(&self, ctx: &Context) -> bool { cache_ok(ctx, &self.cache) && closed(&self.cache) }
}
"""


def rd(rel):
    return open(os.path.join(BASE, rel), encoding="utf-8").read()


def build(ub, algebra_text):
    common_prelude(ub, algebra_text)
    maps = rd("prelude/maps.rs").split("//@@EXTRACTED-ITEMS@@")[1].split("//@@MAPS-CONTAINERS@@")[0]
    ub.out("// @@FILE prelude/maps.rs (ExprMap interface, chains)\n" + maps)
    ub.out("// @@FILE prelude/driver.rs\n" + rd("prelude/driver.rs"))
    ub.emit_raw("lemmas/seqs.rs")
    ub.emit_raw("lemmas/driver.rs")
    ub.emit_fn(META, "get_fixed_point", "verify", spec_key="get_fixed_point#partial", cfg={"receivers": {"m": "map"}, "no_canary": True})
    ub.emit_item(TRANS, "enum", "ExprTransformMode", DERIVE_COPY)
    ub.emit_fn(TRANS, "update_expr_children", "stub")
    ub.emit_fn(TRANS, "do_transform_expr", "verify", cfg={"receivers": {"ctx": "node", "transformed": "map"}, "for_each_child": True})
    ub.emit_fn(SIMP, "simplify", "stub")
    ub.emit_item(SIMP, "struct", "Simplifier", "", replace=[["cache:", "pub cache:"]])
    ub.out(SIMPLIFIER_INV)
    ub.emit_fn(SIMP, "new", "verify", impl="impl<T: ExprMap<Option<ExprRef>>> Simplifier<T>", spec_key="Simplifier::new", cfg={"receivers": {}, "no_canary": True})
    ub.emit_fn(SIMP, "simplify", "verify", impl="impl<T: ExprMap<Option<ExprRef>>> Simplifier<T>", spec_key="Simplifier::simplify", cfg={"receivers": {}})
    ub.emit_fn(SIMP, "simplify_single_expression", "verify", cfg={"receivers": {}})
    ub.pin_rest_of_file(TRANS)   # frame: the other functions of the file (DESIGN 11.12)
    ub.out("} // verus!\nfn main() {}\n")
