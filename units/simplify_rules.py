"""Unit simplify_rules (C01): the per-operator rewrite rules of simplify.rs, verbatim, against builder contracts."""
NAME = "simplify_rules"
PROPERTIES = ["C01"]
SPECS = ["contracts/context.spec", "contracts/nodes.spec", "contracts/simplify.spec", "contracts/transform.spec"]

NODES = "patronus/src/expr/nodes.rs"
CTX = "patronus/src/expr/context.rs"
TYPES = "patronus/src/expr/types.rs"
TRANS = "patronus/src/expr/transform.rs"
SIMP = "patronus/src/expr/simplify.rs"

BUILDERS = ["add_expr", "and", "or", "xor", "shift_left", "arithmetic_shift_right", "shift_right", "add", "sub", "mul",
            "equal", "ite", "not", "negate", "concat", "slice", "zero_extend", "sign_extend", "bv_lit", "bit_vec_val",
            "zero", "one", "ones", "get_true", "get_false"]

RULES = ["find_lits_commutative", "find_one_concat", "simplify_ite", "simplify_bv_equal", "simplify_bv_or", "simplify_bv_xor",
         "simplify_bv_greater_equal", "simplify_bv_not", "simplify_bv_zero_ext", "simplify_bv_sign_ext", "simplify_bv_concat",
         "simplify_bv_slice", "simplify_bv_shift_left", "simplify_bv_shift_right", "simplify_bv_arithmetic_shift_right",
         "simplify_bv_add", "simplify_bv_mul"]

DERIVE = "#[derive(PartialEq, Eq, Structural)]"
DERIVE_COPY = "#[derive(PartialEq, Eq, Clone, Copy, Structural)]"


def common_prelude(ub, algebra_text):
    ub.out("use vstd::prelude::*;\nverus! {\n")
    ub.out("// @@GENERATED algebra\n" + algebra_text)
    ub.emit_raw("lemmas/arith.rs")
    ub.emit_raw("prelude/baa.rs")
    # ctx.rs with the extracted data types spliced in
    pre, post = open(ub_path("prelude/ctx.rs")).read().split("//@@EXTRACTED-ITEMS@@")
    ub.out("// @@FILE prelude/ctx.rs (part 1)\n" + pre)
    ub.emit_item(NODES, "struct", "ArrayType", DERIVE_COPY)
    ub.emit_item(NODES, "enum", "Type", DERIVE_COPY)
    ub.emit_item(NODES, "enum", "Expr", DERIVE)
    ub.out("// @@FILE prelude/ctx.rs (part 2)\n" + post)


def ub_path(rel):
    import os
    return os.path.join(os.path.dirname(os.path.dirname(os.path.abspath(__file__))), rel)


def build(ub, algebra_text):
    common_prelude(ub, algebra_text)
    for b in BUILDERS:
        ub.emit_fn(CTX, b, "stub")
    ub.emit_fn(TYPES, "get_bv_type", "stub", spec_key="ExprRef::get_bv_type")
    ub.emit_fn(TYPES, "get_bv_type", "stub", spec_key="Expr::get_bv_type")
    ub.emit_fn(NODES, "is_true", "stub", impl="impl BVLitValue", spec_key="BVLitValue::is_true")
    ub.emit_fn(NODES, "is_false", "stub", impl="impl BVLitValue", spec_key="BVLitValue::is_false")
    ub.emit_item(SIMP, "enum", "Lits")
    cfg = {"receivers": {"ctx": "node"}, "into_target": "BitVecValue"}
    for r in RULES:
        ub.emit_fn(SIMP, r, "verify", cfg=cfg)
    ub.emit_assumed("carved_and_mask")
    cfg_and = dict(cfg, carve=[{"token": "bit_set_intervals", "call": "carved_and_mask(ctx, expr, lit)", "stub": "carved_and_mask"}])
    ub.emit_fn(SIMP, "simplify_bv_and", "verify", cfg=cfg_and)
    ub.emit_fn(SIMP, "simplify", "verify", cfg=dict(cfg, slice_scrutinee="children", split={"nth": 0, "on": "old(ctx).nodes()[expr]"}))
    ub.emit_fn(TRANS, "update_expr_children", "verify",
               cfg=dict(cfg, slice_scrutinee="children", split={"nth": 0, "on": "old(ctx).nodes()[expr_ref]"}))
    ub.out("} // verus!\nfn main() {}\n")
