"""Unit dse_expr_guard (C20, clause "converting a boolean expression to a guard yields a guard equivalent to the expression"):
the two callbacks that GuardCtx::expr_to_guard hands to traversal::bottom_up_multi_pat.

  * converter: every arm `Expr::V(..) => self.bdd.OP(children[..])` of its match is wrapped, verbatim, as a function of `bdd` and
    `children` (engine VA) and verified to build the BDD of the SMT-LIB meaning of V from the guards of V's operands; the `_` arm
    builds the terminal for the expression and may assume that no children were visited only because of
  * selector/converter agreement: the set S of variants whose children the selector may hand to the traversal (read off its
    `matches!(expr, ..)` test; every variant if there is no such test) must be contained in the set C of variants the converter has
    an arm for — otherwise the `_` arm receives children (its `debug_assert!` fails, and in a release build work is done for
    nothing).  Stated as a Verus lemma over the two sets.
Assumed: the contracts of boolean_expression::BDD (prelude below)."""
import os, re
NAME = "dse_expr_guard"
PROPERTIES = ["C20"]
SPECS = ["contracts/dse_expr_guard.spec"]
VS = "patronus-dse/src/value_summary.rs"
NODES = "patronus/src/expr/nodes.rs"

PRELUDE = """
#[derive(PartialEq, Eq, Clone, Copy, Structural)]
pub struct Guard(pub u64);
#[verifier::external_body] #[derive(Clone, Copy)] pub struct ExprRef { _p: u32 }
/// a bit-vector literal of width 1
#[verifier::external_body] pub struct BVLitValue { _p: u8 }
impl BVLitValue {
    pub uninterp spec fn spec_is_true(&self) -> bool;
    #[verifier::external_body] pub fn is_true(&self) -> (r: bool) ensures r == self.spec_is_true(), { unimplemented!() }
}
/// boolean_expression::BDD<ExprRef> (ASSUMED contracts; `holds(g, x)`: function g is true under valuation x of the terminals)
#[verifier::external_body] pub struct Bdd { _p: u8 }
impl Bdd {
    pub uninterp spec fn holds(&self, g: Guard, x: int) -> bool;
    pub uninterp spec fn known(&self, g: Guard) -> bool;
    /// truth value of the (boolean) expression e under valuation x
    pub uninterp spec fn term(e: ExprRef, x: int) -> bool;
    pub open spec fn extends(&self, old: &Bdd) -> bool {
        forall|g: Guard| #[trigger] old.known(g) ==> self.known(g) && (forall|x: int| self.holds(g, x) == old.holds(g, x))
    }
    #[verifier::external_body] pub fn constant(&mut self, v: bool) -> (r: Guard)
        ensures final(self).extends(old(self)), final(self).known(r), forall|x: int| #[trigger] final(self).holds(r, x) == v, { unimplemented!() }
    #[verifier::external_body] pub fn terminal(&mut self, e: ExprRef) -> (r: Guard)
        ensures final(self).extends(old(self)), final(self).known(r), forall|x: int| #[trigger] final(self).holds(r, x) == Bdd::term(e, x), { unimplemented!() }
    #[verifier::external_body] pub fn not(&mut self, a: Guard) -> (r: Guard)
        requires old(self).known(a),
        ensures final(self).extends(old(self)), final(self).known(r), forall|x: int| #[trigger] final(self).holds(r, x) == !old(self).holds(a, x), { unimplemented!() }
    #[verifier::external_body] pub fn and(&mut self, a: Guard, b: Guard) -> (r: Guard)
        requires old(self).known(a), old(self).known(b),
        ensures final(self).extends(old(self)), final(self).known(r), forall|x: int| #[trigger] final(self).holds(r, x) == (old(self).holds(a, x) && old(self).holds(b, x)), { unimplemented!() }
    #[verifier::external_body] pub fn or(&mut self, a: Guard, b: Guard) -> (r: Guard)
        requires old(self).known(a), old(self).known(b),
        ensures final(self).extends(old(self)), final(self).known(r), forall|x: int| #[trigger] final(self).holds(r, x) == (old(self).holds(a, x) || old(self).holds(b, x)), { unimplemented!() }
    #[verifier::external_body] pub fn xor(&mut self, a: Guard, b: Guard) -> (r: Guard)
        requires old(self).known(a), old(self).known(b),
        ensures final(self).extends(old(self)), final(self).known(r), forall|x: int| #[trigger] final(self).holds(r, x) == (old(self).holds(a, x) != old(self).holds(b, x)), { unimplemented!() }
    #[verifier::external_body] pub fn implies(&mut self, a: Guard, b: Guard) -> (r: Guard)
        requires old(self).known(a), old(self).known(b),
        ensures final(self).extends(old(self)), final(self).known(r), forall|x: int| #[trigger] final(self).holds(r, x) == (old(self).holds(a, x) ==> old(self).holds(b, x)), { unimplemented!() }
}
pub open spec fn all_known(bdd: &Bdd, s: Seq<Guard>) -> bool { forall|i: int| 0 <= i < s.len() ==> bdd.known(#[trigger] s[i]) }
"""


def closures(body):
    """the two `|ctx, expr, children| { .. }` closures of expr_to_guard: (selector block text, converter block text, offsets)"""
    from vx.lexer import lex, code_toks, match_close
    from vx.extract import AnchorError
    T = code_toks(lex(body))
    res = []
    for i, t in enumerate(T):
        if t.text == "|" and i + 6 < len(T) and [x.text for x in T[i + 1:i + 7]] == ["ctx", ",", "expr", ",", "children", "|"] and T[i + 7].text == "{":
            e = match_close(T, i + 7)
            res.append((body[T[i + 7].start:T[e].end], T[i + 7].start))
    if len(res) != 2:
        raise AnchorError(f"expr_to_guard: expected two `|ctx, expr, children| {{..}}` callbacks, found {len(res)}")
    return res


def selected_variants(sel):
    """None = every variant; else the variants named in `let X = matches!(expr, ..); if !X { return; }` placed before for_each_child"""
    from vx.lexer import lex, code_toks, match_close
    from vx.extract import AnchorError
    if "matches!" not in sel:
        return None
    T = code_toks(lex(sel))
    i = next(k for k, t in enumerate(T) if t.kind == "ident" and t.text == "matches")
    if not (T[i + 1].text == "!" and T[i + 2].text == "(" and T[i + 3].text == "expr" and T[i + 4].text == ","):
        raise AnchorError("expr_to_guard selector: unrecognised `matches!` test")
    e = match_close(T, i + 2)
    alts = re.sub(r"\s+", "", sel[T[i + 5].start:T[e].start]).split("|")
    names = []
    for a in alts:
        m = re.fullmatch(r"Expr::(\w+)(\(\.\.\))?", a)
        if not m:
            raise AnchorError(f"expr_to_guard selector: unrecognised alternative `{a}`")
        names.append(m.group(1))
    m = re.search(r"let (\w+) = matches!", sel)
    if not m or not re.search(r"if !%s \{\s*return;" % m.group(1), sel) or sel.index("for_each_child") < sel.index("return;"):
        raise AnchorError("expr_to_guard selector: the `matches!` test does not guard the visit of the children in the recognised way")
    return names


def build(ub, algebra_text, variant=None):
    from vx.extract import find_match, match_arms, AnchorError
    ub.out("use vstd::prelude::*;\nverus! {\n")
    ub.out("// @@FILE units/dse_expr_guard.py (prelude)\n" + PRELUDE)
    item = ub.src(VS).find_fn("expr_to_guard", "impl GuardCtx")
    (sel, sel_off), (conv, conv_off) = closures(item.body)
    variants = re.findall(r"^\s{4}(\w+)\s*[({,]", ub.src(NODES).find_item("enum", "Expr")[0], re.M)
    if len(variants) < 30:
        raise AnchorError("enum Expr: variants not recognised")
    S = selected_variants(sel)
    arms = match_arms(conv, find_match(conv, 0))
    C, default = [], None
    line0 = item.line + item.body[:conv_off].count("\n")
    for a in arms:
        m = re.fullmatch(r"Expr::(\w+)\((.*)\)", re.sub(r"\s+", "", a.pat))
        if a.pat.strip() == "_":
            default = a
        elif m and a.guard is None:
            C.append((m.group(1), m.group(2), a))
        else:
            raise AnchorError(f"expr_to_guard converter: unrecognised arm pattern `{a.pat}`")
    if default is None:
        raise AnchorError("expr_to_guard converter: no `_` arm")
    # ---- agreement of the two callbacks, as a lemma over variant numbers
    num = {v: i for i, v in enumerate(variants)}
    for v, _, _ in C:
        if v not in num:
            raise AnchorError(f"converter arm for unknown variant {v}")
    sel_txt = "true" if S is None else (" || ".join(f"v == {num[v]}" for v in S) or "false")
    conv_txt = " || ".join(f"v == {num[v]}" for v, _, _ in C) or "false"
    kids_txt = " || ".join(f"v == {num[v]}" for v in variants if v not in ("BVSymbol", "BVLiteral", "ArraySymbol")) or "false"
    ub.out(f"""// @@FILE units/dse_expr_guard.py (generated from the callbacks of expr_to_guard, {VS}:{item.line})
/// variant number v has operands (every variant but the three leaves)
pub open spec fn has_operands(v: int) -> bool {{ {kids_txt} }}
/// the selector may hand the operands of variant number v to the traversal ({'no `matches!` test: every variant' if S is None else 'its `matches!` test: ' + ', '.join(S)})
pub open spec fn selects(v: int) -> bool {{ {sel_txt} }}
/// the converter has an arm for variant number v ({', '.join(v for v, _, _ in C)})
pub open spec fn converts(v: int) -> bool {{ {conv_txt} }}
""")
    s, e = ub.out("// @@FN verify selector_within_converter\npub proof fn selector_within_converter()\n"
                  f"    ensures forall|v: int| 0 <= v < {len(variants)} && has_operands(v) && #[trigger] selects(v) ==> converts(v),\n{{\n}}\n")
    from vx.assemble import Emitted
    ub.emitted.append(Emitted("selector_within_converter", "verify", VS, item.line, s, e, contract="forall v: has_operands(v) && selects(v) ==> converts(v)"))
    # ---- the arms
    cfg = {"receivers": {}, "no_canary": True, "replace": [["self.bdd.", "bdd."]]}
    for v, binds, a in C:
        key = f"guard_arm#{v}"
        if key not in ub.specs:
            raise AnchorError(f"converter arm for {v}: no contract (the SMT-LIB meaning of {v} as a boolean connective is not in contracts/dse_expr_guard.spec)")
        lit = "v: &BVLitValue, " if v == "BVLiteral" else ""
        if v == "BVLiteral" and binds != "v":
            raise AnchorError("BVLiteral arm: expected the binding `v`")
        body = a.body if a.body.lstrip().startswith("{") else "{ " + a.body + " }"
        ub.emit_synth(key, key, f"fn guard_arm_{v}(bdd: &mut Bdd, {lit}expr: ExprRef, children: &[Guard]) -> Guard", body, VS,
                      line0 + conv[:a.start].count("\n"), cfg=cfg)
    body = default.body if default.body.lstrip().startswith("{") else "{ " + default.body + " }"
    ub.emit_synth("guard_arm#default", "guard_arm#default", "fn guard_arm_default(bdd: &mut Bdd, expr: ExprRef, children: &[Guard]) -> Guard", body, VS,
                  line0 + conv[:default.start].count("\n"), cfg=cfg)
    ub.out("} // verus!\nfn main() {}\n")
