"""Unit evalloop (C06): the explicit-stack traversal eval_expr_internal (eval.rs) and its public wrappers, on their real text.
Phase 1: the operator `match` is one assumed step (`apply_node`); its arms are verified separately."""
import os, re
from vx.lexer import lex, code_toks, match_close
from vx.extract import find_match, AnchorError
from units.simplify_rules import common_prelude, NODES

NAME = "evalloop"
PROPERTIES = ["C06"]
SPECS = ["contracts/context.spec", "contracts/nodes.spec", "contracts/eval.spec", "contracts/evalloop.spec"]
EVAL = "patronus/src/expr/eval.rs"
TYPES = "patronus/src/expr/types.rs"
BASE = os.path.dirname(os.path.dirname(os.path.abspath(__file__)))


def rd(rel):
    return open(os.path.join(BASE, rel), encoding="utf-8").read()


def carve_match(body):
    """the operator `match expr { .. }` of the loop  ->  one call + the ghost update of the expression list"""
    pos = find_match(body, 0, "expr")
    T = code_toks(lex(body))
    j = next(k for k, t in enumerate(T) if t.start == pos)
    assert T[j].text == "{"
    i = j
    while not (T[i].kind == "ident" and T[i].text == "match"):
        i -= 1
    cb = match_close(T, j)
    call = ("apply_node(ctx, values, e, expr, &mut bv_stack, &mut array_stack, Ghost(sx));\n"
            "        proof { assert(sx.subrange(0, sx.len() as int) =~= sx); sx = sx.subrange(0, sx.len() - kids(*expr).len()).push(e); }")
    return body[:T[i].start] + call + body[T[cb].end:], 1


PRE = """
    proof {
        ctx.lemma_node_ok(e);
        assert forall|i: int| 0 <= i < kids(*expr).len() implies ctx.nodes()[#[trigger] kids(*expr)[i]].arr_node() == (ctx.ty(kids(*expr)[i]) is Array) by {
            lemma_arr_node_ty(ctx, kids(*expr)[i]);
        }
        lemma_arr_node_ty(ctx, e);
        lemma_top_facts(ctx, values, sx@, bv_stack@, array_stack@);
        // instantiate `on_top` and the sort facts for the (at most three) operands
        if kids(*expr).len() > 0 { assert(sx@[sx@.len() - 1] == kids(*expr)[0]); assert(ctx.has(kids(*expr)[0])); }
        if kids(*expr).len() > 1 { assert(sx@[sx@.len() - 2] == kids(*expr)[1]); assert(ctx.has(kids(*expr)[1])); }
        if kids(*expr).len() > 2 { assert(sx@[sx@.len() - 3] == kids(*expr)[2]); assert(ctx.has(kids(*expr)[2])); }
    }
    let ghost bv0 = bv_stack@;
    let ghost arr0 = array_stack@;
"""

POST = """
    proof {
        let k = kids(*expr).len() as int;
        lemma_peel(ctx, values, sx@, bv0, arr0, k);
        let sxr = sx@.subrange(0, sx@.len() - k);
        let nb = nbv(ctx, sx@, k);
        let bvr = bv0.subrange(0, bv0.len() - nb);
        let arrr = arr0.subrange(0, arr0.len() - (k - nb));
        if expr.arr_node() {
            assert(array_stack@ =~= arrr.push(array_stack@.last()));
            assert(bv_stack@ =~= bvr);
            lemma_match_push_arr(ctx, values, sxr, bvr, arrr, e, array_stack@.last());
        } else {
            assert(bv_stack@ =~= bvr.push(bv_stack@.last()));
            assert(array_stack@ =~= arrr);
            lemma_match_push_bv(ctx, values, sxr, bvr, arrr, e, bv_stack@.last());
        }
    }
"""

OUTSIDE = {"ArrayStore": "arm_array_store(bv_stack, array_stack)"}   # Vec::last_mut is outside the dialect: assumed contract, listed


def operator_match(ub):
    """(verbatim text of `match expr { .. }` in eval_expr_internal, its line)"""
    item = ub.src(EVAL).find_fn("eval_expr_internal")
    body = item.body
    pos = find_match(body, 0, "expr")
    T = code_toks(lex(body))
    j = next(k for k, t in enumerate(T) if t.start == pos)
    i = j
    while not (T[i].kind == "ident" and T[i].text == "match"):
        i -= 1
    cb = match_close(T, j)
    return body[T[i].start:T[cb].end], item.line + body[:T[i].start].count("\n")


def annotate_arms(ub, text):
    """closure arms get the contract of their arm (contracts/eval.spec) written on the closure; the one arm outside the dialect
    becomes a call to an assumed function.  Everything else stays verbatim."""
    from vx.extract import match_arms
    from vx.arms import closure_call
    from vx import rewrite as RW
    pos = text.index("{")
    arms = match_arms(text, pos)
    edits, n = [], 0
    for a in arms:
        m = re.search(r"Expr::([A-Za-z]+)", a.pat)
        v = m.group(1)
        if v in OUTSIDE and "|" not in a.pat:
            edits.append((a.start, a.end, f"{a.pat} => {{ {OUTSIDE[v]}; }}"))
            ub.arm_notes.append(f"arm {v}: outside the Verus dialect (Vec::last_mut), replaced by the assumed contract `{OUTSIDE[v].split('(')[0]}`")
            n += 1
            continue
        for helper in ("un_op", "bin_op"):
            cc = closure_call(a.body, helper)
            if cc:
                params, expr = cc
                sp = ub.specs.get(f"eval_arm_{v}")
                if sp is None:
                    raise AnchorError(f"no arm contract eval_arm_{v}")
                ps = ", ".join(f"{p}: BitVecValue" for p in params)
                clo = (f"|{ps}| -> (res: BitVecValue)\n                requires {sp.requires.strip()}\n                ensures {sp.ensures.strip()}\n"
                       f"            {{ {sp.prefix.strip()} {expr} }}")
                edits.append((a.start, a.end, f"{a.pat} => {helper}(bv_stack, {clo}),"))
                n += 1
                break
    return RW._apply(text, edits), n


def build_apply_node(ub):
    from types import SimpleNamespace
    text, line = operator_match(ub)
    ub.arm_notes = getattr(ub, "arm_notes", [])
    text, n_annot = annotate_arms(ub, text)
    cfg = {"receivers": {"ctx": "node"}, "into_target": "BitVecValue",
           "replace": [["&mut bv_stack", "bv_stack"], ["&mut array_stack", "array_stack"]]}
    body, counts = ub.rewrite_body("{\n" + text + "\n}", cfg)
    counts["R16"] = n_annot
    inner = body.strip()[1:-1]
    spec = ub.specs["apply_node"]
    body = "{\n    " + spec.prefix.strip() + "\n" + PRE + inner + POST + "}"
    sig = ub.name_return(spec.sig, spec.returns)
    item = SimpleNamespace(name="apply_node", line=line, text=text)
    ub.emit_split(EVAL, "apply_node", item, sig, spec, body, counts,
                  {"split": {"nth": 0, "on": "*expr", "scrutinee": "expr"}, "no_canary": True}, None)


def build(ub, algebra_text):
    common_prelude(ub, algebra_text)
    ub.emit_raw("lemmas/seqs.rs")
    ub.out("// @@FILE prelude/evalloop.rs\n" + rd("prelude/evalloop.rs").replace("//@@GENERATED-EV@@", rd("prelude/evalloop_gen.rs")))
    ub.emit_raw("lemmas/evalloop.rs")
    ub.out("pub type BitVecStack = Vec<BitVecValue>;\npub type ArrayStack = Vec<ArrayValue>;\n")
    ub.emit_fn(TYPES, "is_array_type", "verify", impl="impl Expr", spec_key="Expr::is_array_type", cfg={"receivers": {}, "no_canary": True})
    ub.emit_fn(TYPES, "is_bv_type", "verify", impl="impl Expr", spec_key="Expr::is_bv_type", cfg={"receivers": {}, "no_canary": True})
    ub.emit_fn(NODES, "is_symbol", "verify", impl="impl Expr", cfg={"receivers": {}, "no_canary": True})
    ub.emit_fn(EVAL, "un_op", "stub")
    ub.emit_fn(EVAL, "bin_op", "stub")
    ub.emit_assumed("arm_array_store")
    build_apply_node(ub)
    ub.emit_fn(EVAL, "eval_expr_internal", "verify",
               cfg={"receivers": {"ctx": "node"}, "for_each_child": True, "transform": ("R16", carve_match),
                    "replace": [["SmallVec::with_capacity(", "Vec::with_capacity("]]})
    ub.out("/// baa::Value\npub enum Value { Array(ArrayValue), BitVec(BitVecValue) }\n")
    ub.emit_fn(TYPES, "get_bv_type", "stub", spec_key="Expr::get_bv_type")
    ub.emit_fn(TYPES, "get_array_type", "stub", spec_key="Expr::get_array_type")
    wcfg = {"receivers": {"ctx": "node"}, "no_canary": True}
    for w in ("eval_bv_expr", "eval_array_expr", "eval_expr"):
        ub.emit_fn(EVAL, w, "verify", cfg=wcfg)
    ub.pin_rest_of_file(EVAL)   # frame: the other functions of the file (DESIGN 11.12)
    ub.out("} // verus!\nfn main() {}\n")
