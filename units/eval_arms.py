"""Unit eval_arms (C06): every arm of the operator `match` of eval_expr_internal (eval.rs) as a micro-function (engine VA),
`un_op` / `bin_op` verbatim, and `for_each_child` / `num_children` (foreach.rs) against the operand order `kids`."""
import re
from vx.extract import find_match, match_arms, AnchorError
from vx.arms import enum_variants, pattern_bindings, closure_call
from units.simplify_rules import common_prelude, NODES, CTX

NAME = "eval_arms"
PROPERTIES = ["C06"]
SPECS = ["contracts/context.spec", "contracts/nodes.spec", "contracts/eval.spec", "contracts/foreach.spec"]
EVAL = "patronus/src/expr/eval.rs"
FOREACH = "patronus/src/expr/foreach.rs"

# arms that are documented as not evaluable (symbols without a value, the five division/remainder operators)
NOT_EVALUABLE = {"BVSymbol", "ArraySymbol", "BVSignedDiv", "BVUnsignedDiv", "BVSignedMod", "BVSignedRem", "BVUnsignedRem"}
# arm outside the dialect: `array_stack.last_mut()` (in-place store); listed in the evidence as not under contract
OUTSIDE = {"ArrayStore"}


def build(ub, algebra_text):
    common_prelude(ub, algebra_text)
    src = ub.src(EVAL)
    enum_text, _ = ub.src(NODES).find_item("enum", "Expr")
    variants = enum_variants(enum_text)
    cfg = {"receivers": {"ctx": "node"}, "into_target": "BitVecValue", "no_canary": False}
    ub.emit_fn(EVAL, "un_op", "verify", cfg={"receivers": {}, "no_canary": True})
    ub.emit_fn(EVAL, "bin_op", "verify", cfg={"receivers": {}, "no_canary": True})
    item = src.find_fn("eval_expr_internal")
    pos = find_match(item.body, 0, "expr")
    arms = match_arms(item.body, pos)
    seen = set()
    ub.arm_notes = []
    for a in arms:
        line = item.line + item.body[:a.start].count("\n")
        if "|" in a.pat and "Expr::" in a.pat.split("|", 1)[1]:
            vs = re.findall(r"Expr::([A-Za-z]+)", a.pat)
            for v in vs:
                seen.add(v)
            if not set(vs) <= NOT_EVALUABLE:
                raise AnchorError(f"eval arm with alternatives covers evaluable variants: {vs}")
            continue
        v, binds = pattern_bindings(a.pat, variants)
        if v is None:
            raise AnchorError(f"eval arm with unsupported pattern `{a.pat}`")
        seen.add(v)
        if v in NOT_EVALUABLE:
            if not re.search(r"\b(panic|todo)!", a.body):
                raise AnchorError(f"arm {v} was expected to be a documented panic!/todo!")
            continue
        if v in OUTSIDE:
            ub.arm_notes.append(f"{EVAL}:{line} arm {v}: outside the Verus dialect (Vec::last_mut), NOT under contract")
            continue
        params = ", ".join(f"{b}: &{t}" for b, t in binds)
        cc = closure_call(a.body, "un_op") or closure_call(a.body, "bin_op")
        if cc:
            cparams, expr = cc
            sig = f"fn eval_arm_{v}({params}{', ' if params else ''}{', '.join(p + ': BitVecValue' for p in cparams)}) -> BitVecValue"
            ub.emit_synth(f"eval_arm_{v}", f"eval_arm_{v}", sig, "{ " + expr + " }", EVAL, line, cfg, note="closure body of the arm, verbatim")
        else:
            body = a.body if a.body.lstrip().startswith("{") else "{ " + a.body + "; }"
            sig = f"fn eval_arm_{v}(ctx: &Context, {params}{', ' if params else ''}bv_stack: &mut Vec<BitVecValue>, array_stack: &mut Vec<ArrayValue>)"
            ub.emit_synth(f"eval_arm_{v}", f"eval_arm_{v}", sig, body, EVAL, line, cfg, note="arm body verbatim over the two value stacks")
    missing = set(variants) - seen
    if missing:
        raise AnchorError(f"eval match does not mention variants {sorted(missing)}")
    # operand order
    ub.emit_fn(FOREACH, "for_each_child", "verify", impl="impl ForEachChild<ExprRef> for Expr",
               cfg={"receivers": {}, "replace": [["(visitor)(", "visitor.visit("]], "no_canary": True})
    ub.emit_fn(FOREACH, "num_children", "verify", impl="impl ForEachChild<ExprRef> for Expr", cfg={"receivers": {}, "no_canary": True})
    ub.out("} // verus!\nfn main() {}\n")
