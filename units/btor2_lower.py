"""Unit btor2_lower (C08): every arm of the operator tables of btor2/parse.rs as a micro-function (engine VA)."""
import os, re
from vx.extract import find_match, match_arms, AnchorError
from units.simplify_rules import common_prelude, NODES, CTX, TYPES, BUILDERS

NAME = "btor2_lower"
PROPERTIES = ["C08"]
SPECS = ["contracts/context.spec", "contracts/nodes.spec", "contracts/context_l1.spec", "contracts/btor2.spec", "contracts/btor2_state.spec"]
PARSE = "patronus/src/btor2/parse.rs"

# documented as not yet supported (todo!/panic! arms); must stay exactly this set
UNSUPPORTED = {"rol", "ror", "saddo", "uaddo", "sdivo", "udivo", "smulo", "umulo", "ssubo", "usubo"}
# arm outside the dialect (iterator map/collect/reduce with a closure capturing self.ctx); listed as not under contract
OUTSIDE = {"redxor"}
REPL = [["self.ctx", "ctx"], ["self.check_expr_type(", "check_expr_type(ctx, "], ["self.check_type(", "check_type("],
        ["self.require_at_least_n_tokens(", "require_at_least_n_tokens("], ["self.parse_width_int(", "parse_width_int("]]
MORE_BUILDERS = ["greater", "greater_or_equal", "greater_signed", "greater_or_equal_signed", "implies", "div", "signed_div", "signed_mod",
                 "signed_remainder", "remainder", "array_read", "array_store", "distinct"]


def build(ub, algebra_text):
    common_prelude(ub, algebra_text)
    for b in BUILDERS + MORE_BUILDERS:
        ub.emit_fn(CTX, b, "stub")
    ub.emit_fn(TYPES, "get_type", "stub", impl="impl TypeCheck for ExprRef", spec_key="ExprRef::get_type")
    # `pub const BOOL: Type = Type::BV(1);` is cut from nodes.rs
    m = re.search(r"pub const BOOL: Type = [^;]+;", ub.src(NODES).src)
    if not m:
        raise AnchorError("Type::BOOL not found in nodes.rs")
    ub.emit_raw("prelude/btor2.rs", {"//@@CONST-BOOL@@": m.group(0) + "   // <- nodes.rs (verbatim)"})
    src = ub.src(PARSE)
    ub.arm_notes = []
    def table(fn_name, prefix, params, ret):
        item = src.find_fn(fn_name, "impl<'a> Parser<'a>")
        pos = find_match(item.body, 0, "tokens[1]")
        arms = match_arms(item.body, pos)
        seen = set()
        for a in arms:
            line = item.line + item.body[:a.start].count("\n")
            keys = re.findall(r'"([a-z0-9_]+)"', a.pat)
            if not keys:
                # catch-all arm: must be a panic
                if not re.search(r"\bpanic!", a.body):
                    raise AnchorError(f"{fn_name}: catch-all arm is not a panic")
                continue
            if re.search(r"\btodo!", a.body):
                if not set(keys) <= UNSUPPORTED:
                    raise AnchorError(f"{fn_name}: operators {keys} are todo! but not in the documented unsupported set")
                seen.update(keys)
                continue
            for k in keys:
                seen.add(k)
                if k in OUTSIDE:
                    ub.arm_notes.append(f"{PARSE}:{line} operator `{k}`: outside the Verus dialect (iterator adapters with a capturing closure), NOT under contract")
                    continue
                body = a.body if a.body.lstrip().startswith("{") else "{ " + a.body + " }"
                sig = f"fn {prefix}_{k}(ctx: &mut Context, line: &str, tokens: &[&str], tpe: Type, {params}) -> ParseLineResult<{ret}>"
                ub.emit_synth(f"{prefix}_{k}", f"{prefix}_{k}", sig, "{ let r__ = " + body + "; Ok(r__) }", PARSE, line,
                              {"receivers": {}, "replace": REPL, "no_canary": False}, note=f"arm \"{k}\" of {fn_name}, verbatim")
        return seen
    s1 = table("parse_unary_op", "btor2_un", "e: ExprRef", "(ExprRef, usize)")
    s2 = table("parse_bin_op", "btor2_bin", "a: ExprRef, b: ExprRef", "ExprRef")
    s3 = table("parse_ternary_op", "btor2_ter", "a: ExprRef, b: ExprRef, c: ExprRef", "ExprRef")
    missing_unsupported = UNSUPPORTED - (s1 | s2 | s3)
    # negated operand references
    item = src.find_fn("get_expr_from_line_id", "impl<'a> Parser<'a>")
    m = re.search(r"Ok\((if [^{}]*\{[^{}]*\} else \{[^{}]*\})\)", item.body, re.S)
    if not m:
        raise AnchorError("negated-reference expression not found in get_expr_from_line_id")
    line = item.line + item.body[:m.start()].count("\n")
    ub.emit_synth("btor2_negated_ref", "btor2_negated_ref", "fn btor2_negated_ref(ctx: &mut Context, signal: &ExprRef, not: bool) -> ExprRef",
                  "{ " + m.group(1) + " }", PARSE, line, {"receivers": {}, "replace": REPL}, note="negation branch of get_expr_from_line_id, verbatim")
    # init / next operand of a state line: the two statements that decide what is attached to the state
    item = src.find_fn("parse_state_init_or_next", "impl<'a> Parser<'a>")
    m = re.search(r"let bv_assigned_to_array\s*=.*?;\s*let expr = if .*?\n        \};", item.body, re.S)
    if not m:
        raise AnchorError("parse_state_init_or_next: `let bv_assigned_to_array = ..; let expr = if .. {..} else {..};` not found")
    line = item.line + item.body[:m.start()].count("\n")
    for f in ("is_bit_vector", "is_array", "get_array_index_width"):
        ub.emit_fn(NODES, f, "stub", impl="impl Type", spec_key="Type::" + f)
    ub.emit_fn(CTX, "array_const", "stub")
    ub.emit_synth("btor2_state_operand", "btor2_state_operand",
                  "fn btor2_state_operand(ctx: &mut Context, maybe_expr: ExprRef, state_tpe: Type, is_init_not_next: bool) -> ExprRef",
                  "{ " + m.group(0) + " expr }", PARSE, line, {"receivers": {}, "replace": REPL},
                  note="the operand-conversion statements of parse_state_init_or_next, verbatim")
    ub.pin_rest_of_file(PARSE)   # frame: the other functions of the file (DESIGN 11.12)
    ub.out("} // verus!\nfn main() {}\n")
