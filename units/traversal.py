"""Unit traversal (C20, clause "converting a boolean expression to a guard"): `bottom_up_multi_pat` / `bottom_up_multi_pat_mut` of
patronus/src/expr/traversal.rs — the explicit-stack post-order traversal that GuardCtx::expr_to_guard runs with a child selector
that turns every non-boolean-operand expression into a terminal.

Contract (stack discipline, for ARBITRARY closures `get_children` and `f`): the traversal never reaches below its value stack
(`stack.len() - num_children` cannot underflow, the slice handed to `f` is in range), and it ends with exactly one value
(`debug_assert_eq!(stack.len(), 1)`, `pop().unwrap()`).  What the values are is up to `f` and is not specified here.
Invariant: `sim(todo, stack.len()) == 1`, where `sim` replays the work list on the HEIGHT of the stack: an unvisited item adds one
value, a visited item with n selected children takes n values and adds one.

Rewrites: R1 (`ctx[e]`), R1'' (`&stack[a..]` -> `slice_from(&stack, a)`, same bounds obligation), R5, R8 (the loop
`for c in child_vec.drain(..).rev() { todo.push((c, None)); }` — iterator adapters — is carved out under an assumed contract),
type ascriptions on the three `let`s."""
import os, re
NAME = "traversal"
PROPERTIES = ["C20"]
SPECS = ["contracts/traversal.spec"]
TR = "patronus/src/expr/traversal.rs"

PRELUDE = """
#[verifier::external_body] #[derive(Clone, Copy)] pub struct ExprRef { _p: u32 }
#[verifier::external_body] pub struct Context { _p: u8 }
#[verifier::external_body] pub struct Expr { _p: u8 }
impl Context {
    /// `&ctx[e]` (R1)
    #[verifier::external_body] pub fn node(&self, e: ExprRef) -> (r: &Expr) { unimplemented!() }
}
impl Expr {
    #[verifier::external_body] pub fn num_children(&self) -> (r: usize) { unimplemented!() }
}
/// `&v[start..]` (Index<RangeFrom<usize>>: panics unless start <= len)
#[verifier::external_body]
pub fn slice_from<T>(v: &Vec<T>, start: usize) -> (r: &[T])
    requires start <= v@.len(),
    ensures r@ == v@.subrange(start as int, v@.len() as int),
{ unimplemented!() }

pub type Item = (ExprRef, Option<usize>);

/// replay of the work list on the height of the value stack; -1: a visited item finds fewer values than it takes
pub open spec fn sim(todo: Seq<Item>, h: int) -> int
    decreases todo.len(),
{
    if todo.len() == 0 { h } else {
        match todo.last().1 {
            None => sim(todo.drop_last(), h + 1),
            Some(n) => if h >= n { sim(todo.drop_last(), h - n + 1) } else { -1 },
        }
    }
}

/// R8: `for c in child_vec.drain(..).rev() { todo.push((c, None)); }` (ASSUMED: Vec::drain(..) empties the vector and yields its
/// elements, `rev` reverses them)
#[verifier::external_body]
pub fn drain_rev_onto(child_vec: &mut Vec<ExprRef>, todo: &mut Vec<Item>)
    ensures final(child_vec)@.len() == 0,
            final(todo)@.len() == old(todo)@.len() + old(child_vec)@.len(),
            forall|i: int| 0 <= i < old(todo)@.len() ==> final(todo)@[i] == old(todo)@[i],
            forall|i: int| old(todo)@.len() <= i < final(todo)@.len() ==> (#[trigger] final(todo)@[i]).1 is None,
{ unimplemented!() }

/// the work list of a tree in which an item only carries a flag "children visited" (no count): same carve-out, no `sim` invariant
/// can be stated (the number of values an item takes is not recorded) — the subtraction then has to be safe on its own
pub type FlagItem = (ExprRef, bool);
#[verifier::external_body]
pub fn drain_rev_onto_flag(child_vec: &mut Vec<ExprRef>, todo: &mut Vec<FlagItem>)
    ensures final(child_vec)@.len() == 0,
            final(todo)@.len() == old(todo)@.len() + old(child_vec)@.len(),
            forall|i: int| 0 <= i < old(todo)@.len() ==> final(todo)@[i] == old(todo)@[i],
            forall|i: int| old(todo)@.len() <= i < final(todo)@.len() ==> !(#[trigger] final(todo)@[i]).1,
{ unimplemented!() }

/// ASSUMED (Rust allocation limit): a vector of a non-zero-sized element type holds at most isize::MAX bytes, so `len() + 1`
/// cannot overflow `usize`
pub broadcast proof fn ax_vec_len_refs(v: &Vec<ExprRef>)
    ensures #[trigger] v@.len() < isize::MAX,
{ admit(); }
pub broadcast proof fn ax_vec_len_items(v: &Vec<Item>)
    ensures #[trigger] v@.len() < isize::MAX,
{ admit(); }

/// unvisited items on top of the work list add one value each
pub proof fn lemma_sim_nones(todo: Seq<Item>, base: int, h: int)
    requires 0 <= base <= todo.len(), forall|i: int| base <= i < todo.len() ==> (#[trigger] todo[i]).1 is None,
    ensures sim(todo, h) == sim(todo.take(base), h + (todo.len() - base)),
    decreases todo.len() - base,
{
    if base == todo.len() {
        assert(todo.take(base) =~= todo);
    } else {
        assert(todo.last().1 is None);
        lemma_sim_nones(todo.drop_last(), base, h + 1);
        assert(todo.drop_last().take(base) =~= todo.take(base));
    }
}
"""


def transform(body):
    from vx.extract import AnchorError
    n = 0
    m = re.search(r"for (\w+) in child_vec\.drain\(\.\.\)\.rev\(\) \{\s*todo\.push\(\(\1, (None|false)\)\);\s*\}", body)
    if not m:
        raise AnchorError("bottom_up_multi_pat: the loop that moves the selected children onto the work list was not found")
    flag = m.group(2) == "false"
    body = body[:m.start()] + ("drain_rev_onto_flag" if flag else "drain_rev_onto") + "(&mut child_vec, &mut todo);" + body[m.end():]
    n += 1
    m = re.search(r"&stack\[([^\]]+?)\.\.\]", body)
    if not m:
        raise AnchorError("bottom_up_multi_pat: `&stack[<start>..]` not found")
    body = body[:m.start()] + f"slice_from(&stack, {m.group(1)})" + body[m.end():]
    n += 1
    for a, b in (("let mut todo = vec![", "let mut todo: Vec<FlagItem> = vec![" if flag else "let mut todo: Vec<Item> = vec!["), ("let mut stack = Vec::with_capacity(", "let mut stack: Vec<R> = Vec::with_capacity("),
                 ("let mut child_vec = Vec::with_capacity(", "let mut child_vec: Vec<ExprRef> = Vec::with_capacity(")):
        if a not in body:
            raise AnchorError(f"bottom_up_multi_pat: `{a}` not found")
        body = body.replace(a, b)
    return body, n


def build(ub, algebra_text, variant=None):
    ub.out("use vstd::prelude::*;\nverus! {\n")
    ub.out("// @@FILE units/traversal.py (prelude)\n" + PRELUDE)
    for fn in ("bottom_up_multi_pat", "bottom_up_multi_pat_mut"):
        # an item that only carries a flag: the contract without the `sim` invariant (there is nothing to state it over)
        flag = re.search(r"todo\.push\(\(\w+, false\)\)", ub.src(TR).find_fn(fn).body) is not None
        cfg = {"receivers": {"ctx": "node"}, "no_canary": True, "transform": ("R8", transform), "obligation_name": fn}
        ub.emit_fn(TR, fn, "verify", cfg=cfg, spec_key=fn + "#flag" if flag else fn)
    ub.out("} // verus!\nfn main() {}\n")
