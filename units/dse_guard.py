"""Unit dse_guard (C20): the operations of a value summary other than coalescing — `new`, `to_guard`, `import_into_guard` and
`apply_ite` of value_summary.rs, verbatim, against the semantics "value of the summary under every valuation of the guard terminals".
The merge loops of apply_ite are the function `ite_merge` verified in unit dse_coalesce (R8: the statements are carved out and
replaced by a call under that contract); `coalesce_entries` is used under the contract verified there."""
import os, re
NAME = "dse_guard"
PROPERTIES = ["C20"]
SPECS = ["contracts/dse.spec", "contracts/dse_guard.spec"]
VS = "patronus-dse/src/value_summary.rs"
IMPL_V = "impl<V: Value> ValueSummary<V>"
IMPL_G = "impl<V: Value + ToGuard> ValueSummary<V>"


def carve_merge(body):
    """R8: the merge statements of apply_ite -> a call of ite_merge (their contract is verified in unit dse_coalesce)"""
    from vx.extract import AnchorError
    a = body.find("let mut entries = Vec::with_capacity(")
    b = body.rfind("ValueSummary { entries }")
    if a < 0 or b < a:
        raise AnchorError("apply_ite: merge statements not found")
    return body[:a] + "let entries = ite_merge(gc, tru, fals, tru_cond, fals_cond);\n        " + body[b:], 1


def name_iters(body):
    """R17: `for x in E` -> `for x in it__N: E` (ghost names for the loop iterators)"""
    n = [0]
    def f(m):
        n[0] += 1
        return f"for {m.group(1)} in it__{n[0]}: "
    return re.sub(r"\bfor (\w+) in ", f, body), n[0]


def build(ub, algebra_text, variant=None):
    ub.out("use vstd::prelude::*;\nverus! {\n")
    base = os.path.dirname(os.path.dirname(os.path.abspath(__file__)))
    pre, post = open(os.path.join(base, "prelude/dse.rs")).read().split("//@@EXTRACTED-ITEMS@@")
    marker = "pub trait Value: Sized {\n}\n"
    assert marker in pre
    pre = pre.replace(marker, open(os.path.join(base, "prelude/dse_guard.rs")).read())
    ub.out("// @@FILE prelude/dse.rs (part 1) + prelude/dse_guard.rs\n" + pre)
    ub.emit_item(VS, "struct", "Entry", "", replace=[["<V: Clone>", "<V: Value>"], ["guard: Guard", "pub guard: Guard"], ["value: V", "pub value: V"]])
    ub.emit_item(VS, "struct", "ValueSummary", "", replace=[["entries:", "pub entries:"]])
    ub.emit_item(VS, "enum", "GuardResult")
    ub.out("// @@FILE prelude/dse.rs (part 2)\n" + post)
    ub.emit_raw("prelude/dse_guard2.rs")
    ub.emit_raw("lemmas/dse.rs")
    ub.emit_raw("lemmas/dse_guard.rs")
    ub.emit_fn(VS, "coalesce_entries", "stub")
    item = ub.src(VS).find_fn("apply_ite", IMPL_G)
    ub.emit_synth("ite_merge", "ite_merge",
                  "fn ite_merge<V: Value>(gc: &mut GuardCtx, tru: ValueSummary<V>, fals: ValueSummary<V>, tru_cond: Guard, fals_cond: Guard) -> Vec<Entry<V>>",
                  "{}", VS, item.line, {"receivers": {}}, mode="stub")
    cfg = {"receivers": {}, "no_canary": True}
    ub.emit_fn(VS, "len", "verify", impl=IMPL_V, spec_key="ValueSummary::len", cfg=cfg)
    ub.emit_fn(VS, "new", "verify", impl=IMPL_V, spec_key="ValueSummary::new", cfg=cfg)
    for nm in ("is_true", "is_false"):
        ub.emit_fn(VS, nm, "stub", impl=IMPL_V, spec_key=f"ValueSummary::{nm}", cfg=cfg)
        ub.pin_assumed_fn(VS, nm, IMPL_V, "slice patterns (outside the dialect): contract assumed, text pinned")
    # what each operator becomes in the BDD (closures over Context and the real BDD) is not under contract: pinned
    ub.pin_assumed_fn(VS, "expr_to_guard", "impl GuardCtx", "closures over Context and the real BDD (outside the dialect): not under contract, text pinned")
    ub.emit_fn(VS, "to_guard", "verify", impl=IMPL_G, spec_key="ValueSummary::to_guard", cfg={"receivers": {}, "transform": ("R17", name_iters)})
    ub.emit_fn(VS, "import_into_guard", "verify", impl=IMPL_G, spec_key="ValueSummary::import_into_guard", cfg={"receivers": {}})
    ub.emit_fn(VS, "apply_ite", "verify", impl=IMPL_G, spec_key="ValueSummary::apply_ite", cfg={"receivers": {}, "transform": ("R8", carve_merge)})
    ub.pin_rest_of_file(VS)   # frame: the other functions of the file (DESIGN 11.12)
    ub.out("} // verus!\nfn main() {}\n")
