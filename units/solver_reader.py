"""Unit solver_reader (C15): read_response (termination at end of stream) and read_sat_response (verdict classification)."""
import os
NAME = "solver_reader"
PROPERTIES = ["C15"]
SPECS = ["contracts/solver.spec"]
SOLVER = "patronus/src/smt/solver.rs"

TYPES = [["BufWriter<std::process::ChildStdin>", "XStdin"],
         ["BufReader<std::process::ChildStdout>", "XStdout"], ["std::process::ChildStderr", "XStderr"], ["std::process::Child", "XChild"],
         ["Option<BufWriter<File>>", "Option<XFile>"], ["Vec<SymbolTable>", "Vec<XSymbolTable>"],
         ["std::io::Error", "XIoError"], ["SmtParserError", "XParserError"]]


def build(ub, algebra_text):
    ub.out("use vstd::prelude::*;\nverus! {\n")
    base = os.path.dirname(os.path.dirname(os.path.abspath(__file__)))
    pre, post = open(os.path.join(base, "prelude/solver.rs")).read().split("//@@EXTRACTED-ITEMS@@")
    ub.out("// @@FILE prelude/solver.rs (part 1)\n" + pre)
    pubf = [["\n    " + f + ":", "\n    pub " + f + ":"] for f in ("name", "proc", "stdin", "stdout", "stderr", "stack_depth", "response", "replay_file",
            "has_error", "solver_args", "solver_options", "supports_uf", "supports_check_assuming", "supports_const_array",
            "supports_get_unsat_assumptions", "symbols", "last_query_unsat")]
    ub.emit_item(SOLVER, "struct", "SmtLibSolverCtx", "", replace=TYPES + pubf)
    ub.emit_item(SOLVER, "enum", "Error", "", replace=TYPES)
    ub.emit_item(SOLVER, "enum", "CheckSatResponse", "")
    ub.out("pub type Result<T> = std::result::Result<T, Error>;\n")
    ub.out("// @@FILE prelude/solver.rs (part 2)\n" + post)
    ub.emit_assumed("carved_response_tail")
    cfg = {"receivers": {}, "no_canary": True,
           "carve_if": [{"token": "starts_with", "call": "carved_response_tail(self)", "stub": "carved_response_tail"}]}
    ub.emit_fn(SOLVER, "read_response", "verify", impl="impl SmtLibSolverCtx", cfg=cfg)
    ub.emit_fn(SOLVER, "read_sat_response", "verify", impl="impl SmtLibSolverCtx", cfg={"receivers": {}, "no_canary": True})
    ub.out("} // verus!\nfn main() {}\n")
