"""Unit solver_reader (C15): read_response (termination at end of stream) and read_sat_response (verdict classification)."""
import os
NAME = "solver_reader"
PROPERTIES = ["C15"]
SPECS = ["contracts/solver.spec"]
SOLVER = "patronus/src/smt/solver.rs"

TYPES = [["BufWriter<std::process::ChildStdin>", "XStdin"],
         ["BufReader<std::process::ChildStdout>", "XStdout"], ["std::process::ChildStderr", "XStderr"], ["std::process::Child", "XChild"],
         ["Option<BufWriter<File>>", "Option<XFile>"], ["Vec<SymbolTable>", "Vec<XSymbolTable>"],
         ["std::io::Error", "XIoError"], ["SmtParserError", "XParserError"]]


BMC = "patronus/src/mc/bmc.rs"


def refine(obls):
    """Assume-guarantee between the reader and its consumers.  The property allows a reply to surface as an error OR as an
    Unknown verdict.  The tree as it stands never lets the reader return Ok(Unknown) (strict contract, first run), and bmc relies
    on that: it only tests `== Sat`.  If the strict contract fails, the reader is re-verified against the contract the property
    states (Ok(Unknown) allowed) and the verdict gates of bmc are checked against a reader that may answer Unknown."""
    for o in obls:
        if o.name == "read_sat_response" and o.status == "failed":
            return "unknown_possible"
    return None


def verdict_gates(ub):
    """`if X == CheckSatResponse::Sat {` inside fn bmc: (line, condition text, variable)"""
    import re
    from vx.lexer import lex, code_toks, match_close
    item = ub.src(BMC).find_fn("bmc")
    body = item.body
    T = code_toks(lex(body))
    gates = []
    for i, t in enumerate(T):
        if t.kind == "ident" and t.text == "if" and i + 6 < len(T) and T[i + 1].kind == "ident" and T[i + 2].text == "==" \
                and T[i + 3].text == "CheckSatResponse" and T[i + 4].text == "::" and T[i + 5].text == "Sat" and T[i + 6].text == "{":
            cond = body[T[i + 1].start:T[i + 5].end]
            line = item.line + body[:t.start].count("\n")
            gates.append((line, cond, T[i + 1].text))
    return gates


def build(ub, algebra_text, variant=None):
    ub.out("use vstd::prelude::*;\nverus! {\n")
    base = os.path.dirname(os.path.dirname(os.path.abspath(__file__)))
    pre, post = open(os.path.join(base, "prelude/solver.rs")).read().split("//@@EXTRACTED-ITEMS@@")
    ub.out("// @@FILE prelude/solver.rs (part 1)\n" + pre)
    pubf = [["\n    " + f + ":", "\n    pub " + f + ":"] for f in ("name", "proc", "stdin", "stdout", "stderr", "stack_depth", "response", "replay_file",
            "has_error", "solver_args", "solver_options", "supports_uf", "supports_check_assuming", "supports_const_array",
            "supports_get_unsat_assumptions", "symbols", "last_query_unsat")]
    ub.emit_item(SOLVER, "struct", "SmtLibSolverCtx", "", replace=TYPES + pubf)
    ub.emit_item(SOLVER, "enum", "Error", "", replace=TYPES)
    ub.emit_item(SOLVER, "enum", "CheckSatResponse", "#[derive(PartialEq, Eq, Clone, Copy, Structural)]" if variant else "")
    ub.out("pub type Result<T> = std::result::Result<T, Error>;\n")
    ub.out("// @@FILE prelude/solver.rs (part 2)\n" + post)
    ub.emit_assumed("carved_response_tail")
    cfg = {"receivers": {}, "no_canary": True,
           "carve_if": [{"token": "starts_with", "call": "carved_response_tail(self)", "stub": "carved_response_tail"}]}
    ub.emit_fn(SOLVER, "read_response", "verify", impl="impl SmtLibSolverCtx", cfg=cfg)
    if variant is None:
        ub.emit_fn(SOLVER, "read_sat_response", "verify", impl="impl SmtLibSolverCtx", cfg={"receivers": {}, "no_canary": True})
    else:
        ub.emit_fn(SOLVER, "read_sat_response", "verify", impl="impl SmtLibSolverCtx", spec_key="read_sat_response#unknown_allowed",
                   cfg={"receivers": {}, "no_canary": True, "obligation_name": "read_sat_response"})
        gates = verdict_gates(ub)
        if not gates:
            from vx.extract import AnchorError
            raise AnchorError("the reader may answer Ok(Unknown) and no `if X == CheckSatResponse::Sat` verdict gate was found in bmc: "
                              "its consumers cannot be analysed")
        for k, (line, cond, var) in enumerate(gates, 1):
            import re
            body = "{ if " + re.sub(r"\b%s\b" % re.escape(var), "res", cond) + " { return false; } true }"
            ub.emit_synth("bmc_verdict_gate", f"bmc_verdict_gate_{k}", f"fn bmc_verdict_gate_{k}(res: CheckSatResponse) -> bool", body, BMC, line,
                          cfg={"receivers": {}, "no_canary": True},
                          note="the condition is verbatim (variable spelled `res`); the Fail branch returns false, falling through (towards Success) returns true")
    ub.pin_rest_of_file(SOLVER)   # frame: the other functions of the file (DESIGN 11.12)
    ub.out("} // verus!\nfn main() {}\n")
