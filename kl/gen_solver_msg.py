#!/usr/bin/env python3
"""Generate the Kani harness crate for the `(error ...)` message extraction of SmtLibSolverCtx::read_response.

The guard expression and the statements that compute `msg` are cut verbatim from /repo's solver.rs (the then-branch of
`if self.response.trim_start().starts_with("(error")`, up to the statement that sets `self.has_error`), with
`self.response` spelled `response`.  One harness per message length 0..=N (bytes symbolic, printable ASCII, no leading or
trailing blank): for the reply `(error <m>)` the guard is true, nothing panics, and the extracted message is exactly <m>.
BOUNDED by N."""
import re, sys, os
sys.path.insert(0, os.path.dirname(os.path.dirname(os.path.abspath(__file__))))
from vx.extract import Source, AnchorError
from vx.lexer import lex, code_toks, match_close


def cut(repo):
    src = Source(os.path.join(repo, "patronus/src/smt/solver.rs"))
    item = src.find_fn("read_response", "impl SmtLibSolverCtx")
    body = item.body
    T = code_toks(lex(body))
    idx = [i for i, t in enumerate(T) if t.kind == "ident" and t.text == "starts_with"]
    if len(idx) != 1:
        raise AnchorError("starts_with anchor")
    i = idx[0]
    while not (T[i].kind == "ident" and T[i].text == "if"):
        i -= 1
    j = idx[0]
    while T[j].text != "{":
        j += 1
    cond = body[T[i + 1].start:T[j - 1].end]
    e = match_close(T, j)
    block = body[T[j].end:T[e].start]
    k = block.find("self.has_error")
    if k < 0:
        raise AnchorError("self.has_error anchor")
    stmts = block[:k]
    if "msg" not in stmts:
        raise AnchorError("msg binding")
    return cond.replace("self.response", "response"), stmts.replace("self.response", "response"), item.line


def cut_count_parens(repo):
    src = Source(os.path.join(repo, "patronus/src/smt/parser.rs"))
    item = src.find_fn("count_parens")
    return item.sig.replace("pub(crate) ", "pub ") + " " + item.body, item.line


PARENS_HARNESS = """
    // count_parens is how read_response decides that a reply is complete (it reads another line while the count is > 0).  The
    // solver's reply is complete when its parentheses are balanced OUTSIDE string literals and quoted symbols: a parenthesis quoted
    // in an error message is not structure.  For every text of N characters over the alphabet ( ) " | x blank whose literals are
    // closed, count_parens must therefore be the balance of the structural parentheses.
    fn parens_check<const N: usize>() {
        let k: [u8; N] = kani::any();
        let mut bytes: Vec<u8> = Vec::with_capacity(N);
        let mut balance: i64 = 0;
        let mut in_string = false;
        let mut in_symbol = false;
        let mut i = 0;
        while i < N {
            kani::assume(k[i] < 6);
            let c = match k[i] { 0 => b'(', 1 => b')', 2 => b'"', 3 => b'|', 4 => b'x', _ => b' ' };
            bytes.push(c);
            if in_string { if c == b'"' { in_string = false; } }
            else if in_symbol { if c == b'|' { in_symbol = false; } }
            else if c == b'"' { in_string = true; }
            else if c == b'|' { in_symbol = true; }
            else if c == b'(' { balance += 1; }
            else if c == b')' { balance -= 1; }
            i += 1;
        }
        kani::assume(!in_string && !in_symbol);
        kani::cover!(N < 3 || balance != 0);
        let text = unsafe { String::from_utf8_unchecked(bytes) };
        assert!(count_parens(&text) == balance, "count_parens counts only structural parentheses");
    }
"""


def gen(repo, max_len):
    cond, stmts, line = cut(repo)
    cp_text, cp_line = cut_count_parens(repo)
    out = [f"""#![allow(unused)]
// cut verbatim from patronus/src/smt/parser.rs (line {cp_line})
{cp_text}
""", f"""
// guard and extraction statements cut verbatim from patronus/src/smt/solver.rs (read_response, line {line})
pub fn is_error_reply(response: &String) -> bool {{
    {cond}
}}
pub fn extract_error_message(response: &String) -> String {{
{stmts}
    msg.to_string()
}}
#[cfg(kani)]
mod harness {{
    use super::*;
    fn check<const N: usize>() {{
        let m: [u8; N] = kani::any();
        let mut i = 0;
        while i < N {{
            kani::assume(m[i] >= 0x20 && m[i] <= 0x7e);
            i += 1;
        }}
        if N > 0 {{ kani::assume(m[0] != b' ' && m[N - 1] != b' '); }}
        let mut bytes: Vec<u8> = Vec::with_capacity(N + 10);
        for b in b"(error ".iter() {{ bytes.push(*b); }}
        let mut i = 0;
        while i < N {{ bytes.push(m[i]); i += 1; }}
        bytes.push(b')');
        bytes.push(b'\\n');
        let response = unsafe {{ String::from_utf8_unchecked(bytes) }};   // all bytes are printable ASCII
        assert!(is_error_reply(&response));
        let msg = extract_error_message(&response);
        let mb = msg.as_bytes();
        assert!(mb.len() == N);
        let mut i = 0;
        while i < N {{ assert!(mb[i] == m[i]); i += 1; }}
    }}
"""]
    out.append(PARENS_HARNESS)
    names = []
    for n in (1, 3, 5):
        names.append(f"count_parens_len{n}")
        out.append(f"    #[kani::proof] #[kani::unwind({n + 3})] fn count_parens_len{n}() {{ parens_check::<{n}>(); }}\n")
    for n in range(0, max_len + 1):
        names.append(f"error_message_len{n}")
        out.append(f"    #[kani::proof] #[kani::unwind({n + 14})] fn error_message_len{n}() {{ check::<{n}>(); }}\n")
    out.append("}\n")
    return "".join(out), names


if __name__ == "__main__":
    text, names = gen(sys.argv[1], int(sys.argv[2]))
    open(sys.argv[3], "w").write(text)
    print(names)
