//! SMT-LIB FixedSizeBitVectors semantics on u128 for widths 1..=128: the machine-arithmetic reading of the
//! literal-level functions v_* that the Verus units leave uninterpreted (DESIGN §3).
pub fn rmask(w: u32) -> u128 { if w >= 128 { u128::MAX } else { (1u128 << w) - 1 } }
pub fn v_and(_w: u32, a: u128, b: u128) -> u128 { a & b }
pub fn v_or(_w: u32, a: u128, b: u128) -> u128 { a | b }
pub fn v_xor(_w: u32, a: u128, b: u128) -> u128 { a ^ b }
pub fn v_not(w: u32, a: u128) -> u128 { !a & rmask(w) }
pub fn v_neg(w: u32, a: u128) -> u128 { a.wrapping_neg() & rmask(w) }
pub fn v_add(w: u32, a: u128, b: u128) -> u128 { a.wrapping_add(b) & rmask(w) }
pub fn v_sub(w: u32, a: u128, b: u128) -> u128 { a.wrapping_sub(b) & rmask(w) }
pub fn v_mul(w: u32, a: u128, b: u128) -> u128 { a.wrapping_mul(b) & rmask(w) }
pub fn v_shl(w: u32, a: u128, b: u128) -> u128 { if b >= w as u128 { 0 } else { (a << (b as u32)) & rmask(w) } }
pub fn v_lshr(w: u32, a: u128, b: u128) -> u128 { if b >= w as u128 { 0 } else { a >> (b as u32) } }
pub fn sign(w: u32, a: u128) -> bool { (a >> (w - 1)) & 1 == 1 }
pub fn v_ashr(w: u32, a: u128, b: u128) -> u128 {
    let s = sign(w, a);
    if b >= w as u128 { if s { rmask(w) } else { 0 } } else {
        let k = b as u32;
        let r = a >> k;
        if s && k > 0 { r | (rmask(k) << (w - k)) } else { r }
    }
}
pub fn v_concat(_wa: u32, a: u128, wb: u32, b: u128) -> u128 { (a << wb) | b }
pub fn v_slice(_w: u32, a: u128, hi: u32, lo: u32) -> u128 { (a >> lo) & rmask(hi - lo + 1) }
pub fn v_zext(_w: u32, a: u128, _by: u32) -> u128 { a }
pub fn v_sext(w: u32, a: u128, by: u32) -> u128 { if sign(w, a) && by > 0 { a | (rmask(by) << w) } else { a } }
pub fn v_eq(_w: u32, a: u128, b: u128) -> bool { a == b }
pub fn v_ugt(_w: u32, a: u128, b: u128) -> bool { a > b }
pub fn v_uge(_w: u32, a: u128, b: u128) -> bool { a >= b }
pub fn signed(w: u32, a: u128) -> i128 { if w == 128 { a as i128 } else if sign(w, a) { (a as i128) - (1i128 << w) } else { a as i128 } }
pub fn v_sgt(w: u32, a: u128, b: u128) -> bool { signed(w, a) > signed(w, b) }
pub fn v_sge(w: u32, a: u128, b: u128) -> bool { signed(w, a) >= signed(w, b) }
