
// ======================================================================================================================
// injected by /verif (engine KL) into a SCRATCH COPY of patronus-dse/src/value_summary.rs — never committed to /repo.
// Contract of `delete_entries` (checked, bounded: one harness per length n <= N_MAX, contents and delete list symbolic):
//   requires: delete_list strictly ascending, every index < entries.len()
//   ensures : entries == old(entries) with exactly those positions removed, order kept
// ======================================================================================================================
#[cfg(any(kani, verif_replay))]
#[allow(unexpected_cfgs)]
mod verif_kani {
    use super::delete_entries;

    fn check<const N: usize>() {
        let contents: [u8; N] = kani::any();
        let mask: [bool; N] = kani::any();          // which positions to delete: every strictly ascending list arises
        let mut entries: Vec<u8> = Vec::with_capacity(N);
        let mut delete_list: Vec<usize> = Vec::with_capacity(N);
        let mut expected: Vec<u8> = Vec::with_capacity(N);
        let mut i = 0;
        while i < N {
            entries.push(contents[i]);
            if mask[i] { delete_list.push(i); } else { expected.push(contents[i]); }
            i += 1;
        }
        kani::cover!(delete_list.len() > 0 && expected.len() > 0 || N < 2);
        delete_entries(delete_list, &mut entries);
        assert!(entries.len() == expected.len());
        let mut k = 0;
        while k < N {
            if k < expected.len() { assert!(entries[k] == expected[k]); }
            k += 1;
        }
    }

    #[cfg_attr(kani, kani::proof)] #[cfg_attr(kani, kani::unwind(3))] fn delete_entries_n0() { check::<0>(); }
    #[cfg_attr(kani, kani::proof)] #[cfg_attr(kani, kani::unwind(3))] fn delete_entries_n1() { check::<1>(); }
    #[cfg_attr(kani, kani::proof)] #[cfg_attr(kani, kani::unwind(4))] fn delete_entries_n2() { check::<2>(); }
    #[cfg_attr(kani, kani::proof)] #[cfg_attr(kani, kani::unwind(5))] fn delete_entries_n3() { check::<3>(); }
    #[cfg_attr(kani, kani::proof)] #[cfg_attr(kani, kani::unwind(6))] fn delete_entries_n4() { check::<4>(); }
    #[cfg_attr(kani, kani::proof)] #[cfg_attr(kani, kani::unwind(7))] fn delete_entries_n5() { check::<5>(); }

    #[cfg(verif_replay)]
    const HARNESSES: &[(&str, fn())] = &[("delete_entries_n0", delete_entries_n0), ("delete_entries_n1", delete_entries_n1), ("delete_entries_n2", delete_entries_n2), ("delete_entries_n3", delete_entries_n3), ("delete_entries_n4", delete_entries_n4), ("delete_entries_n5", delete_entries_n5)];
    //@@SHIM@@
}
