// ======================================================================================================================
// injected by /verif (engine KL) into a SCRATCH COPY of patronus/src/smt/parser.rs — never committed to /repo.
// BOUNDED check of the SMT-LIB lexer (`impl Iterator for Lexer`), the one part of the reader that is byte-level code
// without a `Context` and therefore within Kani's reach.  Contract checked (C14 "malformed text yields an error", C15
// "garbage ... returns an error"), over EVERY byte string of N bytes (all 256 values per byte):
//   * `next()` never panics (no `todo!`, no slice out of range, no arithmetic overflow) — Kani's built-in checks;
//   * every token is a sub-slice of the input, Value tokens are non-empty;
//   * the token stream is finite: at most one token per input byte, then `None`, and `None` is sticky;
//   * a quoted symbol / string literal token is handed out only when it is delimited on both sides in the text: an
//     unterminated `|...` or `"...` (truncated text) is never turned into the symbol or string it is a prefix of.
// ======================================================================================================================
#[cfg(any(kani, verif_replay))]
#[allow(unexpected_cfgs)]
mod verif_kani {
    use super::{Lexer, Token};

    /// position of the sub-slice `s` in `input` (Kani checks that both pointers belong to the same allocation)
    fn pos_of(input: &[u8], s: &[u8]) -> usize {
        let off = unsafe { s.as_ptr().offset_from(input.as_ptr()) };
        assert!(off >= 0 && off as usize + s.len() <= input.len(), "token lies in the input");
        off as usize
    }

    fn check<const N: usize>() {
        let input: [u8; N] = kani::any();
        kani::cover!(N < 2 || (input[0] == b'|' && input[N - 1] != b'|'), "a truncated quoted symbol is reachable");
        kani::cover!(N < 2 || (input[0] == b';' && input[1] == b'\n'), "an empty comment is reachable");
        let mut lexer = Lexer::new(&input);
        let mut count = 0usize;
        let mut k = 0;
        while k < N + 1 {
            match lexer.next() {
                None => break,
                Some(tok) => {
                    count += 1;
                    match tok {
                        Token::Open | Token::Close => {}
                        Token::Value(v) => { pos_of(&input, v); assert!(!v.is_empty(), "value tokens are not empty"); }
                        Token::EscapedValue(v) => {
                            // a quoted symbol is handed out only when it is delimited by `|` on both sides in the text
                            let p = pos_of(&input, v);
                            assert!(p >= 1 && p + v.len() < N, "quoted symbol is delimited in the text");
                            assert!(input[p - 1] == b'|' && input[p + v.len()] == b'|', "quoted symbol is delimited in the text");
                        }
                        Token::StringLit(v) => {
                            let p = pos_of(&input, v);
                            assert!(p >= 1 && p + v.len() < N, "string literal is delimited in the text");
                            assert!(input[p - 1] == b'"' && input[p + v.len()] == b'"', "string literal is delimited in the text");
                        }
                        Token::Comment(v) => { pos_of(&input, v); }
                    }
                }
            }
            k += 1;
        }
        assert!(count <= N, "at most one token per input byte");
        assert!(lexer.next().is_none(), "the token stream has ended");
    }

    #[cfg_attr(kani, kani::proof)] #[cfg_attr(kani, kani::unwind(3))] fn lexer_total_n1() { check::<1>(); }
    #[cfg_attr(kani, kani::proof)] #[cfg_attr(kani, kani::unwind(4))] fn lexer_total_n2() { check::<2>(); }
    #[cfg_attr(kani, kani::proof)] #[cfg_attr(kani, kani::unwind(5))] fn lexer_total_n3() { check::<3>(); }
    #[cfg_attr(kani, kani::proof)] #[cfg_attr(kani, kani::unwind(6))] fn lexer_total_n4() { check::<4>(); }
    #[cfg_attr(kani, kani::proof)] #[cfg_attr(kani, kani::unwind(7))] fn lexer_total_n5() { check::<5>(); }
    #[cfg_attr(kani, kani::proof)] #[cfg_attr(kani, kani::unwind(8))] fn lexer_total_n6() { check::<6>(); }

    #[cfg(verif_replay)]
    const HARNESSES: &[(&str, fn())] = &[("lexer_total_n1", lexer_total_n1), ("lexer_total_n2", lexer_total_n2), ("lexer_total_n3", lexer_total_n3),
                                         ("lexer_total_n4", lexer_total_n4), ("lexer_total_n5", lexer_total_n5), ("lexer_total_n6", lexer_total_n6)];
    //@@SHIM@@
}
