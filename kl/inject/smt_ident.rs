// ======================================================================================================================
// injected by /verif (engine KL) into a SCRATCH COPY of patronus/src/smt/serialize.rs — never committed to /repo.
// BOUNDED check of `is_simple_smt_identifier` (C05: "identifiers are quoted wherever SMT-LIB requires it"): for EVERY name of N
// characters (every Unicode scalar value per character) the function answers true exactly for an SMT-LIB <simple_symbol>:
// a non-empty sequence of ASCII letters, digits and ~ ! @ $ % ^ & * _ - + = < > . ? / that does not start with a digit.
// `escape_smt_identifier` writes the name bare iff this test says so (its text is pinned).
// ======================================================================================================================
#[cfg(any(kani, verif_replay))]
#[allow(unexpected_cfgs)]
mod verif_kani {
    use super::is_simple_smt_identifier;

    /// SMT-LIB 2.6, Concrete Syntax, <simple_symbol>
    fn symbol_char(c: char) -> bool {
        c.is_ascii_alphabetic() || c.is_ascii_digit()
            || matches!(c, '~' | '!' | '@' | '$' | '%' | '^' | '&' | '*' | '_' | '-' | '+' | '=' | '<' | '>' | '.' | '?' | '/')
    }

    fn check<const N: usize>() {
        let cs: [char; N] = kani::any();
        let mut name = String::new();
        let mut all_ok = true;
        let mut i = 0;
        while i < N {
            name.push(cs[i]);
            if !symbol_char(cs[i]) { all_ok = false; }
            i += 1;
        }
        let expect = N > 0 && all_ok && !cs[0].is_ascii_digit();
        kani::cover!(N == 0 || !cs[N - 1].is_ascii(), "a non-ASCII character is reachable");
        assert!(is_simple_smt_identifier(&name) == expect, "bare exactly for an SMT-LIB simple symbol");
    }

    #[cfg_attr(kani, kani::proof)] #[cfg_attr(kani, kani::unwind(6))] fn simple_symbol_n0() { check::<0>(); }
    #[cfg_attr(kani, kani::proof)] #[cfg_attr(kani, kani::unwind(6))] fn simple_symbol_n1() { check::<1>(); }
    #[cfg_attr(kani, kani::proof)] #[cfg_attr(kani, kani::unwind(7))] fn simple_symbol_n2() { check::<2>(); }
    #[cfg_attr(kani, kani::proof)] #[cfg_attr(kani, kani::unwind(8))] fn simple_symbol_n3() { check::<3>(); }

    #[cfg(verif_replay)]
    const HARNESSES: &[(&str, fn())] = &[("simple_symbol_n0", simple_symbol_n0), ("simple_symbol_n1", simple_symbol_n1), ("simple_symbol_n2", simple_symbol_n2), ("simple_symbol_n3", simple_symbol_n3)];
    //@@SHIM@@
}
