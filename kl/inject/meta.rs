// ======================================================================================================================
// injected by /verif (engine KL) into a SCRATCH COPY of patronus/src/expr/meta.rs — never committed to /repo.
// BOUNDED stand-in that accompanies the Verus proof of `get_fixed_point` (unit meta): it gives a concrete failing input
// when the proof fails, and still decides the property up to the bound when the loops were restructured so that the
// loop invariants of contracts/meta.spec no longer anchor.
// Contract checked (C13), over EVERY acyclic map with N keys (acyclic maps are exactly the maps that, after renaming
// keys in rank order, satisfy m[i] = Some(j) with j <= i or m[i] = None):
//   ensures: result == fixed point of `key` in the old map (None iff the chase hits an unset key);
//            the fixed point of NO key changes (cache transparency); the map stays acyclic.
// ======================================================================================================================
#[cfg(any(kani, verif_replay))]
#[allow(unexpected_cfgs)]
mod verif_kani {
    use super::{get_fixed_point, ExprMap};
    use crate::expr::ExprRef;
    use std::ops::{Index, IndexMut};

    #[derive(Debug, Clone)]
    struct ArrMap<const N: usize> { a: [Option<ExprRef>; N] }
    impl<const N: usize> Index<ExprRef> for ArrMap<N> {
        type Output = Option<ExprRef>;
        fn index(&self, e: ExprRef) -> &Self::Output { &self.a[usize::from(e)] }
    }
    impl<const N: usize> IndexMut<ExprRef> for ArrMap<N> {
        fn index_mut(&mut self, e: ExprRef) -> &mut Self::Output { &mut self.a[usize::from(e)] }
    }
    impl<const N: usize> ExprMap<Option<ExprRef>> for ArrMap<N> {
        fn iter<'a>(&'a self) -> impl Iterator<Item = (ExprRef, &'a Option<ExprRef>)> where Option<ExprRef>: 'a {
            self.a.iter().enumerate().map(|(i, v)| (ExprRef::from(i), v))
        }
        fn non_default_value_keys(&self) -> impl Iterator<Item = ExprRef> {
            self.a.iter().enumerate().filter(|(_, v)| v.is_some()).map(|(i, _)| ExprRef::from(i))
        }
    }

    /// executable reference: follow the chain at most N steps
    fn reference<const N: usize>(a: &[Option<usize>; N], key: usize) -> Option<usize> {
        let mut v = key;
        let mut i = 0;
        while i < N {
            match a[v] { None => return None, Some(n) => { if n == v { return Some(v); } v = n; } }
            i += 1;
        }
        None // unreachable for acyclic maps (rank < N)
    }

    fn check<const N: usize>() {
        let mut old = [None; N];
        let mut m = ArrMap::<N> { a: [None; N] };
        let mut i = 0;
        while i < N {
            let set: bool = kani::any();
            if set {
                let j: usize = kani::any();
                kani::assume(j <= i);
                old[i] = Some(j);
                m.a[i] = Some(ExprRef::from(j));
            }
            i += 1;
        }
        let key: usize = kani::any();
        kani::assume(key < N);
        kani::cover!(N < 3 || (old[N - 1] == Some(N - 2) && old[N - 2] == Some(N - 3) && key == N - 1), "a chain of length >= 2 is reachable");
        let res = get_fixed_point(&mut m, ExprRef::from(key));
        let expect = reference::<N>(&old, key);
        assert!(res.map(usize::from) == expect, "result is the fixed point of key");
        let mut new = [None; N];
        let mut k = 0;
        while k < N {
            new[k] = m.a[k].map(usize::from);
            if let Some(j) = new[k] { assert!(j <= k, "map stays acyclic"); }
            k += 1;
        }
        let mut k = 0;
        while k < N {
            assert!(reference::<N>(&new, k) == reference::<N>(&old, k), "no key changes its fixed point");
            k += 1;
        }
    }

    #[cfg_attr(kani, kani::proof)] #[cfg_attr(kani, kani::unwind(4))] fn get_fixed_point_n2() { check::<2>(); }
    #[cfg_attr(kani, kani::proof)] #[cfg_attr(kani, kani::unwind(6))] fn get_fixed_point_n4() { check::<4>(); }
    #[cfg_attr(kani, kani::proof)] #[cfg_attr(kani, kani::unwind(8))] fn get_fixed_point_n6() { check::<6>(); }
    #[cfg_attr(kani, kani::proof)] #[cfg_attr(kani, kani::unwind(10))] fn get_fixed_point_n8() { check::<8>(); }

    #[cfg(verif_replay)]
    const HARNESSES: &[(&str, fn())] = &[("get_fixed_point_n2", get_fixed_point_n2), ("get_fixed_point_n4", get_fixed_point_n4), ("get_fixed_point_n6", get_fixed_point_n6), ("get_fixed_point_n8", get_fixed_point_n8)];
    //@@SHIM@@
}
