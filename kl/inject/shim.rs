    // ---- replay shim (cfg verif_replay): the harness functions above run unchanged under the repository's own toolchain, with
    // `kani::any()` reading the concrete values of a Kani counterexample (VERIF_REPLAY_VALUES = byte lists separated by ';').
    #[cfg(verif_replay)]
    #[allow(dead_code, unused_macros, unused_imports)]
    mod kani {
        use std::cell::RefCell;
        thread_local! { static VALS: RefCell<Vec<Vec<u8>>> = RefCell::new(Vec::new()); }
        pub fn load(text: &str) {
            let mut v: Vec<Vec<u8>> = text.split(';').filter(|s| !s.trim().is_empty())
                .map(|s| s.split(',').filter(|b| !b.trim().is_empty()).map(|b| b.trim().parse::<u8>().unwrap()).collect()).collect();
            v.reverse();
            VALS.with(|c| *c.borrow_mut() = v);
        }
        fn peek_len() -> usize { VALS.with(|c| c.borrow().last().map(|v| v.len()).unwrap_or(0)) }
        fn next(n: usize) -> Vec<u8> {
            let mut v = VALS.with(|c| c.borrow_mut().pop()).unwrap_or_default();   // exhausted: the value was irrelevant to the trace
            v.resize(n, 0);
            v
        }
        pub trait Shim: Sized { const SIZE: usize; fn from_bytes(b: &[u8]) -> Self; }
        macro_rules! prim { ($($t:ty),*) => { $( impl Shim for $t {
            const SIZE: usize = std::mem::size_of::<$t>();
            fn from_bytes(b: &[u8]) -> Self { let mut a = [0u8; std::mem::size_of::<$t>()]; a.copy_from_slice(&b[..Self::SIZE]); <$t>::from_le_bytes(a) }
        } )* } }
        prim!(u8, u16, u32, u64, u128, usize, i8, i16, i32, i64, i128, isize);
        impl Shim for bool { const SIZE: usize = 1; fn from_bytes(b: &[u8]) -> Self { b[0] & 1 == 1 } }
        impl Shim for char { const SIZE: usize = 4; fn from_bytes(b: &[u8]) -> Self { char::from_u32(u32::from_le_bytes([b[0], b[1], b[2], b[3]])).expect("verif_replay: not a char") } }
        pub trait Any: Sized { fn any() -> Self; }
        impl<T: Shim> Any for T { fn any() -> Self { T::from_bytes(&next(T::SIZE)) } }
        impl<T: Shim, const N: usize> Any for [T; N] {
            fn any() -> Self {
                // Kani hands out an array of primitives either as one blob or element by element
                if N > 0 && peek_len() == N * T::SIZE && N * T::SIZE != T::SIZE {
                    let blob = next(N * T::SIZE);
                    std::array::from_fn(|i| T::from_bytes(&blob[i * T::SIZE..]))
                } else {
                    std::array::from_fn(|_| T::from_bytes(&next(T::SIZE)))
                }
            }
        }
        pub fn any<T: Any>() -> T { T::any() }
        pub fn assume(c: bool) { if !c { panic!("verif_replay: the recorded values violate a harness assumption (not a valid input)"); } }
        macro_rules! cover { ($($t:tt)*) => {}; }
        pub(crate) use cover;
    }

    #[cfg(verif_replay)]
    #[test]
    fn verif_replay_entry() {
        let h = std::env::var("VERIF_REPLAY_HARNESS").expect("VERIF_REPLAY_HARNESS");
        kani::load(&std::env::var("VERIF_REPLAY_VALUES").unwrap_or_default());
        for (name, f) in HARNESSES { if *name == h { f(); return; } }
        panic!("verif_replay: unknown harness {h}");
    }
