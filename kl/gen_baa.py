#!/usr/bin/env python3
"""Generate the Kani harness crate for the baa kernels at a given set of widths.

Every harness is loop-free over the full value domain at ONE fixed width (contents symbolic, shape concrete):
a complete proof for that width; the set of widths is the stated bound (DESIGN §6.2).
Checked per operation:  width of the result, value == reference v_op (machine arithmetic), and canonical form
(the result compares equal to, and has the same words as, `from_u128(reference)`; unused bits are zero)."""
import sys

BIN = ["and", "or", "xor", "add", "sub", "mul"]
SHIFT = [("shift_left", "v_shl"), ("shift_right", "v_lshr"), ("arithmetic_shift_right", "v_ashr")]
UN = [("not", "v_not"), ("negate", "v_neg")]
PRED = [("is_equal", "v_eq"), ("is_greater", "v_ugt"), ("is_greater_or_equal", "v_uge"), ("is_greater_signed", "v_sgt"),
        ("is_greater_or_equal_signed", "v_sge")]


def gen(widths, cheap_widths=(), max_total=128, usage=None, only_names=None):
    """widths: every harness; cheap_widths: only the operations that stay cheap on multi-word values;
    usage: {op: (closure params, closure body)} — where an evaluator arm of patronus does MORE than the plain baa call (a work-around
    around a dependency defect), the kernel checks the arm's closure body, cut from eval.rs, instead of the bare operation"""
    usage = usage or {}
    def call2(op):
        if op in usage:
            ps, body = usage[op]
            return "{ let " + ps[0] + " = x.clone(); let " + ps[1] + " = y.clone(); " + body + " }"
        return f"x.{op}(&y)"
    def call1(op):
        if op in usage:
            ps, body = usage[op]
            return "{ let " + ps[0] + " = x.clone(); " + body + " }"
        return f"x.{op}()"
    out = ["""#![allow(unused, non_snake_case)]
pub mod reference;
#[cfg(any(kani, verif_replay))]
mod harness {
    use baa::*;
    use crate::reference::*;
    //@@SHIM@@

    fn val(x: &BitVecValue) -> u128 {
        let w = x.words();
        if w.len() == 1 { w[0] as u128 } else { (w[0] as u128) | ((w[1] as u128) << 64) }
    }
    fn any_bv(w: u32) -> (u128, BitVecValue) {
        let a: u128 = kani::any();
        kani::assume(a <= rmask(w));
        (a, BitVecValue::from_u128(a, w))
    }
    /// width, word count, value; `v` never exceeds rmask(w), so equality of the words is the canonical form (unused bits zero)
    fn check(r: &BitVecValue, w: u32, v: u128) {
        assert!(r.width() == w);
        let rw = r.words();
        assert!(rw.len() == (w as usize + 63) / 64);
        assert!(rw[0] == v as u64);
        if w > 64 { assert!(rw[1] == (v >> 64) as u64); } else { assert!(v >> 64 == 0); }
    }
"""]
    names = []
    def h(name, body):
        if only_names is not None and name not in only_names:
            return
        names.append(name)
        out.append(f"    #[cfg_attr(kani, kani::proof)]\n    #[cfg_attr(kani, kani::unwind(4))]\n    fn {name}() {{\n{body}    }}\n")
    for w in list(widths) + [x for x in cheap_widths if x not in widths]:
        cheap_only = w not in widths
        for op in BIN:
            if cheap_only and op not in ("and", "or", "xor"):
                continue
            if op == "mul" and w > 16:
                # a full 2w-bit multiplier is out of reach of the SAT back end: the second operand ranges over a stated finite set
                h(f"k_mul_w{w}_BOUNDED", f"        let (a, x) = any_bv({w});\n        let k: u8 = kani::any(); kani::assume(k < 8);\n"
                  f"        let b: u128 = match k {{ 0 => 0, 1 => 1, 2 => 2, 3 => 3, 4 => rmask({w}), 5 => 1u128 << ({w} - 1), 6 => 1u128 << ({w} / 2), _ => rmask({w}) - 1 }};\n"
                  f"        let y = BitVecValue::from_u128(b, {w});\n        kani::cover!(k == 7);\n        check(&x.mul(&y), {w}, v_mul({w}, a, b));\n")
                continue
            h(f"k_{op}_w{w}", f"        let (a, x) = any_bv({w}); let (b, y) = any_bv({w});\n        kani::cover!(a != b);\n        check(&{call2(op)}, {w}, v_{op}({w}, a, b));\n")
        for op, ref in SHIFT:
            if cheap_only:
                continue
            if w > 64 and op in ("shift_left", "arithmetic_shift_right"):
                # measured infeasible in this sandbox (the SAT back end exhausts 60 GB even for ONE constant amount once the arm
                # re-normalises the result with a slice): not run above 64 bits; shift_right is
                continue
            h(f"k_{op}_w{w}", f"        let (a, x) = any_bv({w}); let (b, y) = any_bv({w});\n        kani::cover!(b >= {w});\n        check(&{call2(op)}, {w}, {ref}({w}, a, b));\n")
        for op, ref in UN:
            if cheap_only and op != "not":
                continue
            h(f"k_{op}_w{w}", f"        let (a, x) = any_bv({w});\n        kani::cover!(a != 0);\n        check(&{call1(op)}, {w}, {ref}({w}, a));\n")
        for op, ref in PRED:
            h(f"k_{op}_w{w}", f"        let (a, x) = any_bv({w}); let (b, y) = any_bv({w});\n        kani::cover!(a == b);\n        assert!(x.{op}(&y) == {ref}({w}, a, b));\n")
        # predicates on one value
        h(f"k_tests_w{w}", f"        let (a, x) = any_bv({w});\n        kani::cover!(a == rmask({w}));\n        assert!(x.is_zero() == (a == 0));\n        assert!(x.is_one() == (a == 1));\n"
                           f"        assert!(x.is_all_ones() == (a == rmask({w})));\n        assert!(x.is_true() == ({w} == 1 && a == 1));\n        assert!(x.is_false() == ({w} == 1 && a == 0));\n"
                           f"        assert!(x.to_bool() == (if {w} == 1 {{ Some(a == 1) }} else {{ None }}));\n"
                           f"        match x.to_u64() {{ Some(v) => assert!(v as u128 == a), None => assert!(a > u64::MAX as u128) }}\n"
                           f"        match x.is_pow_2() {{ Some(k) => assert!(k < {w} && a == 1u128 << k), None => assert!(a == 0 || (a & (a - 1)) != 0) }}\n"
                           f"        check(&BitVecValue::zero({w}), {w}, 0);\n        check(&BitVecValue::ones({w}), {w}, rmask({w}));\n")
        if cheap_only:
            continue
        # extension / slice / concat: second width chosen around the word boundaries
        far = {max_total - w} if w in (1, 63, 64, 65) else set()   # extension / concat up to the maximal total width only from these widths
        for by in sorted({1, 64 - (w % 64) if w % 64 else 64} | far):
            if by <= 0 or w + by > max_total:
                continue
            h(f"k_zero_extend_w{w}_by{by}", f"        let (a, x) = any_bv({w});\n        kani::cover!(sign({w}, a));\n        check(&x.zero_extend({by}), {w + by}, v_zext({w}, a, {by}));\n")
            if w > 64:
                continue   # sign extension of a multi-word value: not feasible for the SAT back end here (zero extension is)
            h(f"k_sign_extend_w{w}_by{by}", f"        let (a, x) = any_bv({w});\n        kani::cover!(sign({w}, a));\n        check(&x.sign_extend({by}), {w + by}, v_sext({w}, a, {by}));\n")
        for wb in sorted({1, 64 - (w % 64) if w % 64 else 64} | (far if w in (64, 65) else set())):
            if wb <= 0 or w + wb > max_total:
                continue
            h(f"k_concat_w{w}_w{wb}", f"        let (a, x) = any_bv({w}); let (b, y) = any_bv({wb});\n        kani::cover!(a != 0 && b != 0);\n        check(&x.concat(&y), {w + wb}, v_concat({w}, a, {wb}, b));\n")
        # slices: concrete bounds around the word boundary and the ends
        for hi, lo in sorted({(w - 1, 0), (w - 1, w - 1), (0, 0), (w - 1, min(w - 1, 64)), (min(w - 1, 63), 0), (min(w - 1, 64), min(w - 1, 63)), (w - 1, 1), (max(w - 2, 0), 0)}):
            if lo <= hi < w:
                h(f"k_slice_w{w}_{hi}_{lo}", f"        let (a, x) = any_bv({w});\n        kani::cover!(a != 0);\n        check(&x.slice({hi}, {lo}), {hi - lo + 1}, v_slice({w}, a, {hi}, {lo}));\n")
    out.append("    #[cfg(verif_replay)]\n    const HARNESSES: &[(&str, fn())] = &[" + ", ".join(f'("{n}", {n})' for n in names) + "];\n")
    out.append("}\n")
    import os
    shim = open(os.path.join(os.path.dirname(os.path.abspath(__file__)), "inject", "shim.rs"), encoding="utf-8").read()
    return "\n".join(out).replace("    //@@SHIM@@\n", shim), names


if __name__ == "__main__":
    widths = [int(x) for x in sys.argv[1].split(",")]
    text, names = gen(widths, [int(x) for x in sys.argv[3].split(",")] if len(sys.argv) > 3 else ())
    open(sys.argv[2], "w").write(text)
    print("\n".join(names))
